import Photon.Lemmas.RangeSplit
import Photon.Lemmas.RangeSplitGen
/-!
# C15 — Range split: the parts tile the requested range exactly, block by block

Property theorems only. Model: `Photon/Model/RangeSplit.lean` (= `fs/range-split.h`).
-/
namespace Photon.RangeSplit

/-- the facts about `o`, `l`, `iv` that every case needs, with quotients/remainders named -/
private theorem setup (iv o l : Nat) (hiv : 0 < iv) :
    ∃ a r m t, o / iv = a ∧ o % iv = r ∧ (o + l) / iv = a + m ∧ (o + l) % iv = t ∧
      r < iv ∧ t < iv ∧ o = a * iv + r ∧ r + l = m * iv + t := by
  have h1 := Nat.div_add_mod o iv
  have h2 := Nat.div_add_mod (o + l) iv
  have h3 : o / iv ≤ (o + l) / iv := Nat.div_le_div_right (by omega)
  refine ⟨o / iv, o % iv, (o + l) / iv - o / iv, (o + l) % iv, rfl, rfl, by omega, rfl,
    Nat.mod_lt _ hiv, Nat.mod_lt _ hiv, ?_, ?_⟩
  · rw [Nat.mul_comm]; omega
  · have : iv * ((o + l) / iv) = iv * (o / iv) + ((o + l) / iv - o / iv) * iv := by
      rw [Nat.mul_comm _ iv, ← Nat.mul_add]; congr 1; omega
    omega

/-- **C15, tiling.** For every offset, every non-zero length and every interval (inside the
    no-wrap domain), `all_parts()` is a non-empty list of non-empty parts, each inside one block,
    the first starting at `offset`, each next starting where the previous ended, the last ending
    at `offset+length`, with consecutive block indices. -/
theorem C15_tiling (iv o l : Nat) (h : NoWrap iv o l) (hl : 0 < l) :
    let ps := allParts (fixedDiv iv) (init (fixedDiv iv) o l)
    ps ≠ [] ∧ Tiles iv o ps (o + l) ∧ Consecutive ps := by
  obtain ⟨hiv, hivW, hw⟩ := h
  obtain ⟨a, r, m, t, ha, hr, hq, ht, hrl, htl, ho, hrel⟩ := setup iv o l hiv
  have hd1 := fixed_divide iv o hiv (by omega)
  have hd2 := fixed_divide iv (o + l) hiv (by omega)
  have hmodE : (o + l) % W = o + l := Nat.mod_eq_of_lt (by omega)
  rw [ha, hr] at hd1
  rw [hq, ht] at hd2
  have haW : a < W := by
    have : a ≤ a * iv := Nat.le_mul_of_pos_right a hiv
    omega
  intro ps
  have hm1 : (a + 1) % W = a + 1 := Nat.mod_eq_of_lt (by
    have : a + 1 ≤ (a + 1) * iv := Nat.le_mul_of_pos_right _ hiv
    rw [Nat.add_mul] at this; omega)
  have hE : o + l = (a + m) * iv + t := by rw [Nat.add_mul]; omega
  by_cases hs : m + (if t = 0 then 0 else 1) = 1
  · have hps : ps = [⟨a, r, l⟩] := by
      have hc : (a + 1 + W - a % W) % W = 1 := by
        rw [Nat.mod_eq_of_lt haW]
        have : a + 1 + W - a = 1 + W := by omega
        rw [this, Nat.add_mod_right]; exact Nat.mod_eq_of_lt one_lt_W
      simp only [ps, init_single iv o l a r m t hd1 hd2 hmodE hm1 hs, allParts, allPartsCount, hc,
        Nat.one_ne_zero, if_false, Nat.sub_self, partsFrom]
    rw [hps]
    refine ⟨by simp, ?_, trivial⟩
    simp only [Tiles, Sub.lo, Sub.hi]
    refine ⟨by omega, hl, ?_, by omega⟩
    by_cases h0 : t = 0
    · have : m = 1 := by simpa [h0] using hs
      subst this; omega
    · have : m = 0 := by simpa [h0] using hs
      subst this; omega
  · have hm2 : 2 ≤ m + (if t = 0 then 0 else 1) := by
      by_cases h0 : t = 0
      · simp only [h0, if_true, Nat.add_zero] at hs ⊢
        have : m ≠ 0 := by intro hm; subst hm; omega
        omega
      · simp only [h0, if_false] at hs ⊢; omega
    have hbound : a + m + (if t = 0 then 0 else 1) < W := by
      have h1 : a + m ≤ (a + m) * iv := Nat.le_mul_of_pos_right _ hiv
      have h2 : a + m + 1 ≤ (a + m + 1) * iv := Nat.le_mul_of_pos_right _ hiv
      rw [Nat.add_mul (a + m) 1 iv] at h2
      by_cases h0 : t = 0
      · simp only [h0, if_true]; omega
      · simp only [h0, if_false]; omega
    obtain ⟨n, hn⟩ : ∃ n, m + (if t = 0 then 0 else 1) = n + 2 := ⟨_, (Nat.sub_add_cancel hm2).symm⟩
    have hinit := init_multi iv o l a r m t hrl hd1 hd2 hmodE hm1 (by omega) hs
    have hc : (a + m + (if t = 0 then 0 else 1) + W - a % W) % W = n + 2 := by
      rw [Nat.mod_eq_of_lt haW]
      have : a + m + (if t = 0 then 0 else 1) + W - a = (n + 2) + W := by omega
      rw [this, Nat.add_mod_right]; exact Nat.mod_eq_of_lt (by omega)
    have hps : ps = ⟨a, r, iv - r⟩ ::
        partsFrom (fixedDiv iv) (init (fixedDiv iv) o l) (a + 1) (n + 1) := by
      simp only [ps, allParts, allPartsCount]
      rw [hinit]
      simp only [hc, hm1, Nat.add_one_ne_zero, if_false]
      rfl
    have hpost : (init (fixedDiv iv) o l).postface =
        if t = 0 then ⟨0, 0, 0⟩ else ⟨a + m, 0, t⟩ := by rw [hinit]
    obtain ⟨t1, t2, t3⟩ := parts_tile iv hiv (fixedDiv iv) (fun _ => rfl) (init (fixedDiv iv) o l)
      (a + m) t (o + l) hE htl hpost (n + 1) (a + 1) (by omega) (by omega)
    rw [hps]
    refine ⟨by simp, ?_, ?_⟩
    · simp only [Tiles, Sub.lo, Sub.hi]
      refine ⟨by omega, by omega, by omega, ?_⟩
      have e1 : a * iv + r + (iv - r) = (a + 1) * iv := by rw [Nat.add_mul]; omega
      rw [e1]
      simpa using t1
    · simp only [partsFrom] at t2 t3 ⊢
      simp only [Consecutive]
      exact ⟨by simp [nextPart], t2⟩

/-- **C15, empty range.** A zero-length range produces no non-empty part in `all_parts()`. -/
theorem C15_empty (iv o : Nat) (h : NoWrap iv o 0) :
    ∀ p ∈ allParts (fixedDiv iv) (init (fixedDiv iv) o 0), p.len = 0 := by
  obtain ⟨hiv, hivW, hw⟩ := h
  obtain ⟨a, r, m, t, ha, hr, hq, ht, hrl, htl, ho, hrel⟩ := setup iv o 0 hiv
  have hd1 := fixed_divide iv o hiv (by omega)
  have hd2 := fixed_divide iv (o + 0) hiv (by omega)
  have hmodE : (o + 0) % W = o + 0 := Nat.mod_eq_of_lt (by omega)
  rw [ha, hr] at hd1
  rw [hq, ht] at hd2
  have haW : a < W := by
    have : a ≤ a * iv := Nat.le_mul_of_pos_right a hiv
    omega
  have hm1 : (a + 1) % W = a + 1 := Nat.mod_eq_of_lt (by
    have : a + 1 ≤ (a + 1) * iv := Nat.le_mul_of_pos_right _ hiv
    rw [Nat.add_mul] at this; omega)
  have hq' : o / iv = a + m := hq
  have ht' : o % iv = t := ht
  have hm0 : m = 0 := by omega
  subst hm0
  have htr : t = r := by omega
  subst htr
  by_cases h0 : t = 0
  · have hs : 0 + (if t = 0 then 0 else 1) ≠ 1 := by simp [h0]
    have hinit := init_multi iv o 0 a t 0 t hrl hd1 hd2 hmodE hm1 (by omega) hs
    have hc : (a + W - a % W) % W = 0 := by
      rw [Nat.mod_eq_of_lt haW]
      have : a + W - a = W := by omega
      rw [this, Nat.mod_self]
    intro p hp
    rw [hinit] at hp
    simp [allParts, allPartsCount, h0, hc] at hp
  · have hs : 0 + (if t = 0 then 0 else 1) = 1 := by simp [h0]
    have hinit := init_single iv o 0 a t 0 t hd1 hd2 hmodE hm1 hs
    have hc : (a + 1 + W - a % W) % W = 1 := by
      rw [Nat.mod_eq_of_lt haW]
      have : a + 1 + W - a = 1 + W := by omega
      rw [this, Nat.add_mod_right]; exact Nat.mod_eq_of_lt one_lt_W
    intro p hp
    rw [hinit] at hp
    simp [allParts, allPartsCount, hc, partsFrom] at hp
    rw [hp]

/-- **C15, aligned enclosure.** `aligned_begin_offset ≤ offset`, `aligned_end_offset ≥ end`,
    each with less than one interval of slack. -/
theorem C15_aligned_enclose (iv o l : Nat) (h : NoWrap iv o l) :
    let s := init (fixedDiv iv) o l
    s.abegin * iv ≤ o ∧ o - s.abegin * iv < iv ∧ o + l ≤ s.aend * iv ∧ s.aend * iv - (o + l) < iv ∧
    (fixedDiv iv).multiply s.abegin = s.abegin * iv ∧ (fixedDiv iv).multiply s.aend = s.aend * iv := by
  obtain ⟨hiv, hivW, hw⟩ := h
  obtain ⟨a, r, m, t, ha, hr, hq, ht, hrl, htl, ho, hrel⟩ := setup iv o l hiv
  have hd1 := fixed_divide iv o hiv (by omega)
  have hd2 := fixed_divide iv (o + l) hiv (by omega)
  have hmodE : (o + l) % W = o + l := Nat.mod_eq_of_lt (by omega)
  rw [ha, hr] at hd1
  rw [hq, ht] at hd2
  have hm1 : (a + 1) % W = a + 1 := Nat.mod_eq_of_lt (by
    have : a + 1 ≤ (a + 1) * iv := Nat.le_mul_of_pos_right _ hiv
    rw [Nat.add_mul] at this; omega)
  have hE : o + l = (a + m) * iv + t := by rw [Nat.add_mul]; omega
  intro s
  have hab : s.abegin = a ∧ s.aend = a + m + (if t = 0 then 0 else 1) := by
    by_cases hs : m + (if t = 0 then 0 else 1) = 1
    · simp only [s, init_single iv o l a r m t hd1 hd2 hmodE hm1 hs]; exact ⟨trivial, by omega⟩
    · simp only [s, init_multi iv o l a r m t hrl hd1 hd2 hmodE hm1 (by omega) hs]; simp
  rw [hab.1, hab.2]
  have e2 : (a + m + 1) * iv = (a + m) * iv + iv := by rw [Nat.add_mul]; omega
  simp only [fixedDiv]
  by_cases h0 : t = 0
  · simp only [h0, if_true, Nat.add_zero] at hE ⊢
    refine ⟨by omega, by omega, by omega, by omega, Nat.mod_eq_of_lt (by omega), Nat.mod_eq_of_lt (by omega)⟩
  · simp only [h0, if_false] at hE ⊢
    refine ⟨by omega, by omega, by omega, by omega, Nat.mod_eq_of_lt (by omega), Nat.mod_eq_of_lt (by omega)⟩

/-- **C15, classification.** small note / preface / aligned parts / postface, processed in the
    order the header documents, are exactly the non-empty parts of `all_parts()` — for every
    offset, length (including 0) and interval of the no-wrap domain. -/
theorem C15_classification (iv o l : Nat) (h : NoWrap iv o l) :
    classified (fixedDiv iv) (init (fixedDiv iv) o l) =
      (allParts (fixedDiv iv) (init (fixedDiv iv) o l)).filter (fun p => decide (0 < p.len)) := by
  have hiv : 0 < iv := h.1
  have hg : ∀ i, (fixedDiv iv).getLength i = iv := fun _ => rfl
  obtain ⟨a, r, m, t, hrl, htl, ho, hrel, hbound, hsh⟩ := shape iv o l h
  rcases hsh with ⟨hs, hinit⟩ | ⟨hs, hinit⟩
  · -- one block
    have hap : alignedParts (fixedDiv iv) (init (fixedDiv iv) o l) =
        alignedFrom (fixedDiv iv) (a + (if r = 0 then 0 else 1)) (a + m - (a + (if r = 0 then 0 else 1))) := by
      unfold alignedParts
      rw [alignedPartsCount_eq _ (by rw [hinit]; show a + (if r = 0 then 0 else 1) < W; split <;> omega)
        (by rw [hinit]; show a + m < W; omega), hinit]
    have hall : allParts (fixedDiv iv) (init (fixedDiv iv) o l) = [⟨a, r, l⟩] := by
      unfold allParts
      rw [allPartsCount_eq _ (by rw [hinit]; show a ≤ a + 1; omega) (by rw [hinit]; show a + 1 < W; omega), hinit]
      simp [partsFrom]
    rw [hall]
    unfold classified
    rw [hap, hinit]
    by_cases h0 : t = 0
    · have hm : m = 1 := by simpa [h0] using hs
      subst hm
      by_cases hr0 : r = 0
      · have hli : l = iv := by omega
        simp [h0, hr0, alignedFrom, hg, hli, hiv]
      · have hlp : 0 < l := by omega
        simp [h0, hr0, alignedFrom, hlp]
    · have hm : m = 0 := by simpa [h0] using hs
      subst hm
      by_cases hr0 : r = 0
      · have hlp : 0 < l := by omega
        simp [h0, hr0, alignedFrom, hlp]
      · by_cases hlp : 0 < l
        · simp [h0, hr0, hlp]
        · have : l = 0 := by omega
          simp [h0, hr0, alignedFrom, this]
  · -- no block at all, or at least two
    have hap : alignedParts (fixedDiv iv) (init (fixedDiv iv) o l) =
        alignedFrom (fixedDiv iv) (a + (if r = 0 then 0 else 1)) (a + m - (a + (if r = 0 then 0 else 1))) := by
      unfold alignedParts
      rw [alignedPartsCount_eq _ (by rw [hinit]; show a + (if r = 0 then 0 else 1) < W; split <;> omega)
        (by rw [hinit]; show a + m < W; omega), hinit]
    have hcount : allPartsCount (init (fixedDiv iv) o l) = m + (if t = 0 then 0 else 1) := by
      rw [allPartsCount_eq _ (by rw [hinit]; show a ≤ a + m + (if t = 0 then 0 else 1); omega)
        (by rw [hinit]; show a + m + (if t = 0 then 0 else 1) < W; split <;> omega), hinit]
      show a + m + (if t = 0 then 0 else 1) - a = _
      omega
    cases m with
    | zero =>
      -- m = 0 forces t = 0 here, hence r = 0 and l = 0: nothing at all
      have h0 : t = 0 := by
        by_cases h0 : t = 0
        · exact h0
        · simp [h0] at hs
      have hr0 : r = 0 := by omega
      unfold classified allParts
      rw [hcount, hap, hinit]
      simp [h0, hr0, alignedFrom]
    | succ k =>
      have hpost : (init (fixedDiv iv) o l).postface =
          if t = 0 then ⟨0, 0, 0⟩ else ⟨a + (k + 1), 0, t⟩ := by rw [hinit]
      have hparts := partsFrom_eq_aligned (fixedDiv iv) (init (fixedDiv iv) o l) (a + (k + 1)) t hpost
        k (a + 1) (by omega) (by omega)
      have hall : allParts (fixedDiv iv) (init (fixedDiv iv) o l) =
          ⟨a, r, iv - r⟩ :: (alignedFrom (fixedDiv iv) (a + 1) k ++
            (if t = 0 then [] else [⟨a + (k + 1), 0, t⟩])) := by
        rw [← hparts]
        unfold allParts
        rw [hcount]
        have hne : k + 1 + (if t = 0 then 0 else 1) ≠ 0 := by omega
        have hsub : k + 1 + (if t = 0 then 0 else 1) - 1 = k + (if t = 0 then 0 else 1) := by omega
        rw [if_neg hne, hsub]
        congr 1
        · rw [hinit]
        · rw [hinit]; show partsFrom _ _ ((a + 1) % W) _ = _
          rw [Nat.mod_eq_of_lt (by omega)]
      have hpos : 0 < iv - r := by omega
      have hfilt : (allParts (fixedDiv iv) (init (fixedDiv iv) o l)).filter (fun p => decide (0 < p.len)) =
          allParts (fixedDiv iv) (init (fixedDiv iv) o l) := by
        have hl : 0 < l := by rw [Nat.add_mul] at hrel; omega
        exact filter_pos_of_Tiles iv _ _ _ (C15_tiling iv o l h hl).2.1
      rw [hfilt, hall]
      unfold classified
      rw [hap, hinit]
      by_cases hr0 : r = 0
      · have e : a + (k + 1) - a = k + 1 := by omega
        simp only [hr0, if_true, Nat.lt_irrefl, if_false, List.nil_append, Nat.sub_zero, Nat.add_zero, e]
        rw [alignedFrom_succ _ _ _ (by omega), hg]
        by_cases h0 : t = 0
        · simp [h0]
        · have : 0 < t := Nat.pos_of_ne_zero h0
          simp [h0, this]
      · have e : a + (k + 1) - (a + 1) = k := by omega
        simp only [hr0, if_false, e, hpos, if_true, List.cons_append, List.nil_append]
        by_cases h0 : t = 0
        · simp [h0]
        · have : 0 < t := Nat.pos_of_ne_zero h0
          simp [h0, this]

/-- **C15, power-of-two variant.** The shift/mask implementation computes exactly the same split,
    parts and aligned parts as the generic one, for every `k` (interval `2^k`), offset and length. -/
theorem C15_power2_eq (k o l : Nat) :
    init (pow2Div k) o l = init (fixedDiv (2 ^ k)) o l ∧
    allParts (pow2Div k) (init (pow2Div k) o l) =
      allParts (fixedDiv (2 ^ k)) (init (fixedDiv (2 ^ k)) o l) ∧
    alignedParts (pow2Div k) (init (pow2Div k) o l) =
      alignedParts (fixedDiv (2 ^ k)) (init (fixedDiv (2 ^ k)) o l) ∧
    (∀ i, (pow2Div k).multiply i = (fixedDiv (2 ^ k)).multiply i) := by
  have hi := init_congr (pow2Div k) (fixedDiv (2 ^ k)) o l (pow2_divide k) (pow2_getLength k)
  refine ⟨hi, ?_, ?_, pow2_multiply k⟩
  · rw [hi]; unfold allParts
    rw [partsFrom_congr _ _ _ (pow2_getLength k)]
  · rw [hi]; unfold alignedParts
    rw [alignedFrom_congr _ _ (pow2_getLength k)]

/-- corollary: tiling for the power-of-two variant -/
theorem C15_tiling_power2 (k o l : Nat) (h : NoWrap (2 ^ k) o l) (hl : 0 < l) :
    let ps := allParts (pow2Div k) (init (pow2Div k) o l)
    ps ≠ [] ∧ Tiles (2 ^ k) o ps (o + l) ∧ Consecutive ps := by
  intro ps
  have : ps = allParts (fixedDiv (2 ^ k)) (init (fixedDiv (2 ^ k)) o l) := (C15_power2_eq k o l).2.1
  rw [this]; exact C15_tiling (2 ^ k) o l h hl

end Photon.RangeSplit

namespace Photon.RangeSplit
/-! ### non-vacuity and domain witnesses -/

/-- the hypotheses of the theorems are satisfiable, and the header's own example evaluates as
    documented -/
example : NoWrap 32 100 36 ∧ 0 < 36 := by unfold NoWrap W; omega
example : allParts (fixedDiv 32) (init (fixedDiv 32) 100 36) = [⟨3, 4, 28⟩, ⟨4, 0, 8⟩] := by decide
example : classified (fixedDiv 32) (init (fixedDiv 32) 100 100) =
    [⟨3, 4, 28⟩, ⟨4, 0, 32⟩, ⟨5, 0, 32⟩, ⟨6, 0, 8⟩] := by decide

/-- regression for finding F10 (repaired): an empty range at an un-aligned offset has no aligned
    part (before the repair `alignedPartsCount` was `2^64 - 1` here) -/
example : alignedParts (fixedDiv 4) (init (fixedDiv 4) 5 0) = [] := by decide

/-- outside the no-wrap domain the C++ `round_up` wraps: `(offset,length,interval) = (2^63,1,2^63)`
    yields `aend = 0` and the part loop would run `2^64 - 1` times. File offsets are `off_t ≤ 2^63-1`,
    so this is a domain note, not a finding. -/
theorem C15_wrap_witness :
    allPartsCount (init (fixedDiv (2 ^ 63)) (2 ^ 63) 1) = 2 ^ 64 - 1 := by decide

end Photon.RangeSplit

namespace Photon.RangeSplit
/-! ### the variable-interval splitter `range_split_vi` (used by the linear composer of `fs/xfile.cpp`) -/

/-- `std::upper_bound`: everything before the returned index is `≤ x` -/
theorem upperBound_le : ∀ (kp : List Nat) (x j : Nat), j < upperBound kp x → kp.getD j 0 ≤ x
  | [], _, _, h => by simp [upperBound] at h
  | p :: r, x, j, h => by
    unfold upperBound at h
    split at h
    · cases j with
      | zero => simpa
      | succ j => simpa using upperBound_le r x j (by omega)
    · omega

/-- `std::upper_bound`: the element at the returned index (if any) is `> x` -/
theorem upperBound_gt : ∀ (kp : List Nat) (x : Nat), upperBound kp x < kp.length →
    x < kp.getD (upperBound kp x) 0
  | [], _, h => by simp at h
  | p :: r, x, h => by
    unfold upperBound at h ⊢
    split
    · rename_i hp
      simp only [hp, if_true, List.length_cons] at h
      have := upperBound_gt r x (by omega)
      rw [Nat.add_comm 1]; simpa using this
    · simp; omega

theorem upperBound_le_length : ∀ (kp : List Nat) (x : Nat), upperBound kp x ≤ kp.length
  | [], _ => by simp [upperBound]
  | p :: r, x => by
    unfold upperBound; split
    · have := upperBound_le_length r x; simp; omega
    · omega

/-- key points of a variable-interval split: start at 0, strictly ascending -/
def KeyPointsOk (kp : List Nat) : Prop :=
  kp.getD 0 0 = 0 ∧ 0 < kp.length ∧ kp.length < W ∧ kp.getD (kp.length - 1) 0 < W ∧
  ∀ i, i + 1 < kp.length → kp.getD i 0 < kp.getD (i + 1) 0

/-- the three hooks of `range_split_vi` meet the contract of `basic_range_split` -/
theorem viDiv_ok (kp : List Nat) (h : KeyPointsOk kp) : DivOk (viDiv kp) (kp.length - 1) := by
  obtain ⟨h0, hn, hW, hlast, hasc⟩ := h
  refine ⟨by omega, hlast, ?_, ?_, ?_⟩
  · intro i hi
    have := hasc i (by omega)
    simp only [viDiv]; omega
  · intro i hi
    have := hasc i (by omega)
    simp only [viDiv]; omega
  · intro x hx
    simp only [viDiv] at hx ⊢
    have hu1 : 1 ≤ upperBound kp x := by
      cases kp with
      | nil => simp at hn
      | cons p r =>
        have : p = 0 := by simpa using h0
        subst this
        unfold upperBound; simp
    have hle := upperBound_le kp x (upperBound kp x - 1) (by omega)
    have hlen := upperBound_le_length kp x
    refine ⟨upperBound kp x - 1, x - kp.getD (upperBound kp x - 1) 0, ?_, by omega, by omega, ?_, ?_⟩
    · have : upperBound kp x = upperBound kp x - 1 + 1 := by omega
      simp only [gt_iff_lt]
      congr 2
      split <;> omega
    · intro ha
      have := upperBound_gt kp x (by omega)
      have e : upperBound kp x - 1 + 1 = upperBound kp x := by omega
      rw [e]; omega
    · intro ha
      have e : upperBound kp x - 1 = kp.length - 1 := ha
      rw [e]; omega

/-- **C15, tiling, variable intervals.** For every ascending key-point list starting at 0 (any
    number of sub-ranges of any sizes), every offset and non-zero length with `offset+length` not
    beyond the last key point, `all_parts()` of `range_split_vi` is a non-empty list of non-empty
    parts, part `p` lying inside sub-range `p.i` (`[kp[i], kp[i+1])`), the first starting at
    `offset`, each next starting where the previous ended, the last ending at `offset+length`. -/
theorem C15_tiling_vi (kp : List Nat) (h : KeyPointsOk kp) (o l : Nat) (hl : 0 < l)
    (hend : o + l ≤ kp.getD (kp.length - 1) 0) :
    let ps := allParts (viDiv kp) (init (viDiv kp) o l)
    ps ≠ [] ∧ TilesV (fun i => kp.getD i 0) (fun i => kp.getD (i + 1) 0 - kp.getD i 0) o ps (o + l) :=
  tilesV_generic (viDiv kp) (kp.length - 1) (viDiv_ok kp h) o l hl hend

/-- non-vacuity: a key-point list meets the hypothesis, and the split evaluates as expected
    (sub-ranges of sizes 10, 5, 25; the range [7, 33) touches all three) -/
example : KeyPointsOk [0, 10, 15, 40] := by
  refine ⟨rfl, by decide, by unfold W; decide, by unfold W; decide, ?_⟩
  intro i hi
  have : i = 0 ∨ i = 1 ∨ i = 2 := by simp at hi; omega
  rcases this with h | h | h <;> subst h <;> decide
example : allParts (viDiv [0, 10, 15, 40]) (init (viDiv [0, 10, 15, 40]) 7 26) =
    [⟨0, 7, 3⟩, ⟨1, 0, 5⟩, ⟨2, 0, 18⟩] := by decide

end Photon.RangeSplit
