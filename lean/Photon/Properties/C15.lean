import Photon.Lemmas.RangeSplit
/-!
# C15 — Range split: the parts tile the requested range exactly, block by block

Property theorems only. Model: `Photon/Model/RangeSplit.lean` (= `fs/range-split.h`).
-/
namespace Photon.RangeSplit

/-- the facts about `o`, `l`, `iv` that every case needs, with quotients/remainders named -/
private theorem setup (iv o l : Nat) (hiv : 0 < iv) :
    ∃ a r m t, o / iv = a ∧ o % iv = r ∧ (o + l) / iv = a + m ∧ (o + l) % iv = t ∧
      r < iv ∧ t < iv ∧ o = a * iv + r ∧ r + l = m * iv + t := by
  have h1 := Nat.div_add_mod o iv
  have h2 := Nat.div_add_mod (o + l) iv
  have h3 : o / iv ≤ (o + l) / iv := Nat.div_le_div_right (by omega)
  refine ⟨o / iv, o % iv, (o + l) / iv - o / iv, (o + l) % iv, rfl, rfl, by omega, rfl,
    Nat.mod_lt _ hiv, Nat.mod_lt _ hiv, ?_, ?_⟩
  · rw [Nat.mul_comm]; omega
  · have : iv * ((o + l) / iv) = iv * (o / iv) + ((o + l) / iv - o / iv) * iv := by
      rw [Nat.mul_comm _ iv, ← Nat.mul_add]; congr 1; omega
    omega

/-- **C15, tiling.** For every offset, every non-zero length and every interval (inside the
    no-wrap domain), `all_parts()` is a non-empty list of non-empty parts, each inside one block,
    the first starting at `offset`, each next starting where the previous ended, the last ending
    at `offset+length`, with consecutive block indices. -/
theorem C15_tiling (iv o l : Nat) (h : NoWrap iv o l) (hl : 0 < l) :
    let ps := allParts (fixedDiv iv) (init (fixedDiv iv) o l)
    ps ≠ [] ∧ Tiles iv o ps (o + l) ∧ Consecutive ps := by
  obtain ⟨hiv, hivW, hw⟩ := h
  obtain ⟨a, r, m, t, ha, hr, hq, ht, hrl, htl, ho, hrel⟩ := setup iv o l hiv
  have hd1 := fixed_divide iv o hiv (by omega)
  have hd2 := fixed_divide iv (o + l) hiv (by omega)
  have hmodE : (o + l) % W = o + l := Nat.mod_eq_of_lt (by omega)
  rw [ha, hr] at hd1
  rw [hq, ht] at hd2
  have haW : a < W := by
    have : a ≤ a * iv := Nat.le_mul_of_pos_right a hiv
    omega
  intro ps
  have hm1 : (a + 1) % W = a + 1 := Nat.mod_eq_of_lt (by
    have : a + 1 ≤ (a + 1) * iv := Nat.le_mul_of_pos_right _ hiv
    rw [Nat.add_mul] at this; omega)
  have hE : o + l = (a + m) * iv + t := by rw [Nat.add_mul]; omega
  by_cases hs : m + (if t = 0 then 0 else 1) = 1
  · have hps : ps = [⟨a, r, l⟩] := by
      have hc : (a + 1 + W - a % W) % W = 1 := by
        rw [Nat.mod_eq_of_lt haW]
        have : a + 1 + W - a = 1 + W := by omega
        rw [this, Nat.add_mod_right]; exact Nat.mod_eq_of_lt one_lt_W
      simp only [ps, init_single iv o l a r m t hd1 hd2 hmodE hm1 hs, allParts, allPartsCount, hc,
        Nat.one_ne_zero, if_false, Nat.sub_self, partsFrom]
    rw [hps]
    refine ⟨by simp, ?_, trivial⟩
    simp only [Tiles, Sub.lo, Sub.hi]
    refine ⟨by omega, hl, ?_, by omega⟩
    by_cases h0 : t = 0
    · have : m = 1 := by simpa [h0] using hs
      subst this; omega
    · have : m = 0 := by simpa [h0] using hs
      subst this; omega
  · have hm2 : 2 ≤ m + (if t = 0 then 0 else 1) := by
      by_cases h0 : t = 0
      · simp only [h0, if_true, Nat.add_zero] at hs ⊢
        have : m ≠ 0 := by intro hm; subst hm; omega
        omega
      · simp only [h0, if_false] at hs ⊢; omega
    have hbound : a + m + (if t = 0 then 0 else 1) < W := by
      have h1 : a + m ≤ (a + m) * iv := Nat.le_mul_of_pos_right _ hiv
      have h2 : a + m + 1 ≤ (a + m + 1) * iv := Nat.le_mul_of_pos_right _ hiv
      rw [Nat.add_mul (a + m) 1 iv] at h2
      by_cases h0 : t = 0
      · simp only [h0, if_true]; omega
      · simp only [h0, if_false]; omega
    obtain ⟨n, hn⟩ : ∃ n, m + (if t = 0 then 0 else 1) = n + 2 := ⟨_, (Nat.sub_add_cancel hm2).symm⟩
    have hinit := init_multi iv o l a r m t hrl hd1 hd2 hmodE hm1 (by omega) hs
    have hc : (a + m + (if t = 0 then 0 else 1) + W - a % W) % W = n + 2 := by
      rw [Nat.mod_eq_of_lt haW]
      have : a + m + (if t = 0 then 0 else 1) + W - a = (n + 2) + W := by omega
      rw [this, Nat.add_mod_right]; exact Nat.mod_eq_of_lt (by omega)
    have hps : ps = ⟨a, r, iv - r⟩ ::
        partsFrom (fixedDiv iv) (init (fixedDiv iv) o l) (a + 1) (n + 1) := by
      simp only [ps, allParts, allPartsCount]
      rw [hinit]
      simp only [hc, hm1, Nat.add_one_ne_zero, if_false]
      rfl
    have hpost : (init (fixedDiv iv) o l).postface =
        if t = 0 then ⟨0, 0, 0⟩ else ⟨a + m, 0, t⟩ := by rw [hinit]
    obtain ⟨t1, t2, t3⟩ := parts_tile iv hiv (fixedDiv iv) (fun _ => rfl) (init (fixedDiv iv) o l)
      (a + m) t (o + l) hE htl hpost (n + 1) (a + 1) (by omega) (by omega)
    rw [hps]
    refine ⟨by simp, ?_, ?_⟩
    · simp only [Tiles, Sub.lo, Sub.hi]
      refine ⟨by omega, by omega, by omega, ?_⟩
      have e1 : a * iv + r + (iv - r) = (a + 1) * iv := by rw [Nat.add_mul]; omega
      rw [e1]
      simpa using t1
    · simp only [partsFrom] at t2 t3 ⊢
      simp only [Consecutive]
      exact ⟨by simp [nextPart], t2⟩

/-- **C15, empty range.** A zero-length range produces no non-empty part in `all_parts()`. -/
theorem C15_empty (iv o : Nat) (h : NoWrap iv o 0) :
    ∀ p ∈ allParts (fixedDiv iv) (init (fixedDiv iv) o 0), p.len = 0 := by
  obtain ⟨hiv, hivW, hw⟩ := h
  obtain ⟨a, r, m, t, ha, hr, hq, ht, hrl, htl, ho, hrel⟩ := setup iv o 0 hiv
  have hd1 := fixed_divide iv o hiv (by omega)
  have hd2 := fixed_divide iv (o + 0) hiv (by omega)
  have hmodE : (o + 0) % W = o + 0 := Nat.mod_eq_of_lt (by omega)
  rw [ha, hr] at hd1
  rw [hq, ht] at hd2
  have haW : a < W := by
    have : a ≤ a * iv := Nat.le_mul_of_pos_right a hiv
    omega
  have hm1 : (a + 1) % W = a + 1 := Nat.mod_eq_of_lt (by
    have : a + 1 ≤ (a + 1) * iv := Nat.le_mul_of_pos_right _ hiv
    rw [Nat.add_mul] at this; omega)
  have hq' : o / iv = a + m := hq
  have ht' : o % iv = t := ht
  have hm0 : m = 0 := by omega
  subst hm0
  have htr : t = r := by omega
  subst htr
  by_cases h0 : t = 0
  · have hs : 0 + (if t = 0 then 0 else 1) ≠ 1 := by simp [h0]
    have hinit := init_multi iv o 0 a t 0 t hrl hd1 hd2 hmodE hm1 (by omega) hs
    have hc : (a + W - a % W) % W = 0 := by
      rw [Nat.mod_eq_of_lt haW]
      have : a + W - a = W := by omega
      rw [this, Nat.mod_self]
    intro p hp
    rw [hinit] at hp
    simp [allParts, allPartsCount, h0, hc] at hp
  · have hs : 0 + (if t = 0 then 0 else 1) = 1 := by simp [h0]
    have hinit := init_single iv o 0 a t 0 t hd1 hd2 hmodE hm1 hs
    have hc : (a + 1 + W - a % W) % W = 1 := by
      rw [Nat.mod_eq_of_lt haW]
      have : a + 1 + W - a = 1 + W := by omega
      rw [this, Nat.add_mod_right]; exact Nat.mod_eq_of_lt one_lt_W
    intro p hp
    rw [hinit] at hp
    simp [allParts, allPartsCount, hc, partsFrom] at hp
    rw [hp]

/-- **C15, aligned enclosure.** `aligned_begin_offset ≤ offset`, `aligned_end_offset ≥ end`,
    each with less than one interval of slack. -/
theorem C15_aligned_enclose (iv o l : Nat) (h : NoWrap iv o l) :
    let s := init (fixedDiv iv) o l
    s.abegin * iv ≤ o ∧ o - s.abegin * iv < iv ∧ o + l ≤ s.aend * iv ∧ s.aend * iv - (o + l) < iv ∧
    (fixedDiv iv).multiply s.abegin = s.abegin * iv ∧ (fixedDiv iv).multiply s.aend = s.aend * iv := by
  obtain ⟨hiv, hivW, hw⟩ := h
  obtain ⟨a, r, m, t, ha, hr, hq, ht, hrl, htl, ho, hrel⟩ := setup iv o l hiv
  have hd1 := fixed_divide iv o hiv (by omega)
  have hd2 := fixed_divide iv (o + l) hiv (by omega)
  have hmodE : (o + l) % W = o + l := Nat.mod_eq_of_lt (by omega)
  rw [ha, hr] at hd1
  rw [hq, ht] at hd2
  have hm1 : (a + 1) % W = a + 1 := Nat.mod_eq_of_lt (by
    have : a + 1 ≤ (a + 1) * iv := Nat.le_mul_of_pos_right _ hiv
    rw [Nat.add_mul] at this; omega)
  have hE : o + l = (a + m) * iv + t := by rw [Nat.add_mul]; omega
  intro s
  have hab : s.abegin = a ∧ s.aend = a + m + (if t = 0 then 0 else 1) := by
    by_cases hs : m + (if t = 0 then 0 else 1) = 1
    · simp only [s, init_single iv o l a r m t hd1 hd2 hmodE hm1 hs]; exact ⟨trivial, by omega⟩
    · simp only [s, init_multi iv o l a r m t hrl hd1 hd2 hmodE hm1 (by omega) hs]; simp
  rw [hab.1, hab.2]
  have e2 : (a + m + 1) * iv = (a + m) * iv + iv := by rw [Nat.add_mul]; omega
  simp only [fixedDiv]
  by_cases h0 : t = 0
  · simp only [h0, if_true, Nat.add_zero] at hE ⊢
    refine ⟨by omega, by omega, by omega, by omega, Nat.mod_eq_of_lt (by omega), Nat.mod_eq_of_lt (by omega)⟩
  · simp only [h0, if_false] at hE ⊢
    refine ⟨by omega, by omega, by omega, by omega, Nat.mod_eq_of_lt (by omega), Nat.mod_eq_of_lt (by omega)⟩

/-- **C15, power-of-two variant.** The shift/mask implementation computes exactly the same split,
    parts and aligned parts as the generic one, for every `k` (interval `2^k`), offset and length. -/
theorem C15_power2_eq (k o l : Nat) :
    init (pow2Div k) o l = init (fixedDiv (2 ^ k)) o l ∧
    allParts (pow2Div k) (init (pow2Div k) o l) =
      allParts (fixedDiv (2 ^ k)) (init (fixedDiv (2 ^ k)) o l) ∧
    alignedParts (pow2Div k) (init (pow2Div k) o l) =
      alignedParts (fixedDiv (2 ^ k)) (init (fixedDiv (2 ^ k)) o l) ∧
    (∀ i, (pow2Div k).multiply i = (fixedDiv (2 ^ k)).multiply i) := by
  have hi := init_congr (pow2Div k) (fixedDiv (2 ^ k)) o l (pow2_divide k) (pow2_getLength k)
  refine ⟨hi, ?_, ?_, pow2_multiply k⟩
  · rw [hi]; unfold allParts
    rw [partsFrom_congr _ _ _ (pow2_getLength k)]
  · rw [hi]; unfold alignedParts
    rw [alignedFrom_congr _ _ (pow2_getLength k)]

/-- corollary: tiling for the power-of-two variant -/
theorem C15_tiling_power2 (k o l : Nat) (h : NoWrap (2 ^ k) o l) (hl : 0 < l) :
    let ps := allParts (pow2Div k) (init (pow2Div k) o l)
    ps ≠ [] ∧ Tiles (2 ^ k) o ps (o + l) ∧ Consecutive ps := by
  intro ps
  have : ps = allParts (fixedDiv (2 ^ k)) (init (fixedDiv (2 ^ k)) o l) := (C15_power2_eq k o l).2.1
  rw [this]; exact C15_tiling (2 ^ k) o l h hl

end Photon.RangeSplit
