import Photon.Model.File
import Photon.Properties.C15
/-!
# C16 — file adaptors (aligned, linear, striped) are transparent to readers and writers

* `C16_aligned_pread`: through the alignment adaptor a read that starts before end-of-file returns exactly what the
  plain file returns, for every alignment, content, offset, length (and whatever the memory-alignment mode).
* `C16_aligned_requests_read` / `C16_aligned_requests_write`: every read/write request the adaptor issues to the
  underlying file has offset and length that are multiples of the alignment.
* `C16_linear_pread`, `C16_stripe_pread`: a read from a fixed-size linear / stripe composite equals the read from the
  flat file of the concatenated / striped layout, clipped at the composite's size; the parts are those of the C15
  model of `range_split` (`C15_tiling` supplies the tiling).
The write paths (aligned `pwrite` with its read-modify-write and truncation, composite writes, the vectored variants,
the variable-size composite) are executable in the model and tied to the code by the differential check; they have
no closed-form theorem here (see DESIGN.md).
-/
namespace Photon.File
open Photon.RangeSplit (Sub Tiles allParts init fixedDiv NoWrap W)

theorem pread_length (f : Bytes) (off cnt : Nat) : (pread f off cnt).length = min cnt (f.length - off) := by
  simp [pread]

/-! ### alignment adaptor: reads -/

theorem alignedBegin_le (A off : Nat) : alignedBegin A off ≤ off := Nat.div_mul_le_self off A

theorem alignedBegin_add (A off : Nat) : alignedBegin A off + off % A = off := by
  unfold alignedBegin; rw [Nat.mul_comm]; exact Nat.div_add_mod off A

theorem le_alignedEnd (A off cnt : Nat) (hA : 0 < A) : off + cnt ≤ alignedEnd A off cnt := by
  unfold alignedEnd
  have h1 := Nat.div_add_mod (off + cnt + A - 1) A
  have h2 := Nat.mod_lt (off + cnt + A - 1) hA
  rw [Nat.mul_comm] at h1
  omega

/-- **C16, aligned read = plain read.** -/
theorem C16_aligned_pread (A : Nat) (hA : 0 < A) (memOk : Bool) (f : Bytes) (off cnt : Nat) (hoff : off < f.length) :
    (alignedPread A memOk f off cnt).1 = some (pread f off cnt) := by
  unfold alignedPread
  by_cases h0 : cnt = 0
  · subst h0; simp [pread]
  · rw [if_neg h0]
    by_cases hal : (isAligned A off cnt && memOk) = true
    · rw [if_pos hal]
    · rw [if_neg hal]
      have hb := alignedBegin_add A off
      have hble := alignedBegin_le A off
      have he := le_alignedEnd A off cnt hA
      have hlen : (pread f (alignedBegin A off) (alignedEnd A off cnt - alignedBegin A off)).length
          = min (alignedEnd A off cnt - alignedBegin A off) (f.length - alignedBegin A off) := pread_length _ _ _
      have hnot : ¬ (pread f (alignedBegin A off) (alignedEnd A off cnt - alignedBegin A off)).length < off % A := by
        rw [hlen]; omega
      simp only [hnot, if_false]
      congr 1
      rw [hlen]
      simp only [pread, List.drop_take, List.drop_drop, List.take_take]
      have e1 : alignedBegin A off + off % A = off := hb
      rw [e1]
      -- both sides are prefixes of `f.drop off`; compare the lengths
      by_cases hc : cnt ≤ f.length - off
      · congr 1; omega
      · have hl : (f.drop off).length = f.length - off := by simp
        rw [List.take_of_length_le (by rw [hl]; omega), List.take_of_length_le (by rw [hl]; omega)]

/-! ### alignment adaptor: every underlay request is aligned -/

def ReqAligned (A : Nat) (r : Req) : Prop := r.kind = 2 ∨ (r.off % A = 0 ∧ r.len % A = 0)

theorem alignedBegin_mod (A off : Nat) : alignedBegin A off % A = 0 := by
  unfold alignedBegin; exact Nat.mul_mod_left _ _

theorem alignedLen_mod (A off cnt : Nat) : (alignedEnd A off cnt - alignedBegin A off) % A = 0 := by
  unfold alignedEnd alignedBegin
  rw [← Nat.sub_mul]; exact Nat.mul_mod_left _ _

theorem isAligned_iff (A off cnt : Nat) : isAligned A off cnt = true ↔ off % A = 0 ∧ cnt % A = 0 := by
  simp [isAligned]

/-- **C16, alignment of read requests.** -/
theorem C16_aligned_requests_read (A : Nat) (memOk : Bool) (f : Bytes) (off cnt : Nat) :
    ∀ r ∈ (alignedPread A memOk f off cnt).2, ReqAligned A r := by
  unfold alignedPread
  intro r hr
  by_cases h0 : cnt = 0
  · rw [if_pos h0] at hr; simp at hr
  · rw [if_neg h0] at hr
    by_cases hal : (isAligned A off cnt && memOk) = true
    · rw [if_pos hal] at hr
      simp only [List.mem_singleton] at hr
      subst hr
      have := (isAligned_iff A off cnt).mp (by simp only [Bool.and_eq_true] at hal; exact hal.1)
      exact Or.inr this
    · rw [if_neg hal] at hr
      have : r = ⟨0, 0, alignedBegin A off, alignedEnd A off cnt - alignedBegin A off⟩ := by
        dsimp only at hr
        split at hr <;> simpa using hr
      subst this
      exact Or.inr ⟨alignedBegin_mod A off, alignedLen_mod A off cnt⟩

theorem alignedEnd_sub_mod (A off cnt : Nat) (hA : 0 < A) (hc : 0 < cnt) : (alignedEnd A off cnt - A) % A = 0 := by
  unfold alignedEnd
  have hq : 1 ≤ (off + cnt + A - 1) / A := by
    apply (Nat.le_div_iff_mul_le hA).mpr; omega
  have : (off + cnt + A - 1) / A * A - A = ((off + cnt + A - 1) / A - 1) * A := by
    rw [Nat.sub_mul]; simp
  rw [this]; exact Nat.mul_mod_left _ _

theorem mem_ite_singleton {c : Prop} [Decidable c] {x r : Req} (h : r ∈ (if c then [x] else [])) : r = x := by
  split at h <;> simp_all

/-- **C16, alignment of write requests** (the read-modify-write of the first and last block, the write itself;
    `ftruncate` is exempt: it carries the exact logical size). -/
theorem C16_aligned_requests_write (A : Nat) (hA : 0 < A) (memOk : Bool) (f : Bytes) (off : Nat) (d junk : Bytes) :
    ∀ r ∈ (alignedPwrite A memOk f off d junk).2.2, ReqAligned A r := by
  unfold alignedPwrite
  intro r hr
  by_cases h0 : d.length = 0
  · simp only [h0, if_true] at hr; simp at hr
  · simp only [h0, if_false] at hr
    by_cases hal : (isAligned A off d.length && memOk) = true
    · rw [if_pos hal] at hr
      simp only [List.mem_singleton] at hr
      subst hr
      have := (isAligned_iff A off d.length).mp (by simp only [Bool.and_eq_true] at hal; exact hal.1)
      exact Or.inr this
    · rw [if_neg hal] at hr
      have hw : ReqAligned A ⟨1, 0, alignedBegin A off, alignedEnd A off d.length - alignedBegin A off⟩ :=
        Or.inr ⟨alignedBegin_mod A off, alignedLen_mod A off d.length⟩
      have hr1 : ReqAligned A ⟨0, 0, alignedBegin A off, A⟩ := Or.inr ⟨alignedBegin_mod A off, Nat.mod_self A⟩
      have hr2 : ReqAligned A ⟨0, 0, alignedEnd A off d.length - A, A⟩ :=
        Or.inr ⟨alignedEnd_sub_mod A off d.length hA (by omega), Nat.mod_self A⟩
      have ht : ∀ n, ReqAligned A ⟨2, 0, n, 0⟩ := fun n => Or.inl rfl
      dsimp only at hr
      unfold pwriteLog at hr
      simp only [List.mem_append, List.mem_singleton] at hr
      rcases hr with ((h1 | h2) | h3) | h4
      · rw [mem_ite_singleton h1]; exact hr1
      · rw [mem_ite_singleton h2]; exact hr2
      · subst h3; exact hw
      · rw [mem_ite_singleton h4]; exact ht _

/-! ### composers: reads -/

theorem pread_append (f : Bytes) (x a b : Nat) : pread f x a ++ pread f (x + a) b = pread f x (a + b) := by
  simp only [pread]
  rw [List.take_add, ← List.drop_drop]

theorem Tiles_le (iv : Nat) : ∀ (ps : List Sub) (x y : Nat), Tiles iv x ps y → x ≤ y
  | [], x, y, h => by simp only [Tiles] at h; omega
  | p :: r, x, y, h => by
    simp only [Tiles, Sub.lo, Sub.hi] at h
    obtain ⟨h1, _, _, h4⟩ := h
    have := Tiles_le iv r _ y h4
    omega

/-- reading inside block `i` of the concatenation of equal-size blocks -/
theorem flatten_block_read (U : Nat) : ∀ (fs : List Bytes) (i o l : Nat), (∀ b ∈ fs, b.length = U) → i < fs.length →
    o + l ≤ U → pread fs.flatten (i * U + o) l = pread (fs.getD i []) o l
  | [], i, o, l, _, hi, _ => by exact absurd hi (by simp)
  | b :: fs, 0, o, l, hU, _, hol => by
    have hb : b.length = U := hU b (by simp)
    simp only [pread, List.flatten_cons, Nat.zero_mul, Nat.zero_add, List.getD_cons_zero]
    rw [List.drop_append_of_le_length (by omega), List.take_append_of_le_length (by simp; omega)]
  | b :: fs, i + 1, o, l, hU, hi, hol => by
    have hb : b.length = U := hU b (by simp)
    have ih := flatten_block_read U fs i o l (fun x hx => hU x (by simp [hx])) (by simpa using hi) hol
    simp only [pread, List.flatten_cons, List.getD_cons_succ] at ih ⊢
    have : (i + 1) * U + o = b.length + (i * U + o) := by rw [Nat.add_mul, hb]; omega
    rw [this, List.drop_append]
    have hd : List.drop (b.length + (i * U + o)) b = [] := List.drop_eq_nil_of_le (by omega)
    rw [hd, List.nil_append, Nat.add_sub_cancel_left]
    exact ih

/-- the parts of a tiling read, one after the other, exactly the flat range — for any per-block read function
    `rd` that agrees with the flat file inside each of the `N` blocks -/
theorem tiles_read (U N : Nat) (flat : Bytes) (rd : Nat → Nat → Nat → Bytes)
    (hrd : ∀ i o l, i < N → o + l ≤ U → rd i o l = pread flat (i * U + o) l) :
    ∀ (ps : List Sub) (x y : Nat), Tiles U x ps y → y ≤ N * U →
      (ps.flatMap fun p => rd p.i p.off p.len) = pread flat x (y - x)
  | [], x, y, h, _ => by simp only [Tiles] at h; subst h; simp [pread]
  | p :: r, x, y, h, hy => by
    simp only [Tiles] at h
    obtain ⟨h1, h2, h3, h4⟩ := h
    have hle := Tiles_le U r _ y h4
    have ih := tiles_read U N flat rd hrd r _ y h4 hy
    simp only [Sub.lo, Sub.hi] at h1 hle ih
    have hi : p.i < N := by
      by_cases hc : p.i < N
      · exact hc
      · exfalso
        have : N * U ≤ p.i * U := Nat.mul_le_mul_right U (by omega)
        omega
    rw [List.flatMap_cons, ih, hrd p.i p.off p.len hi h3, h1]
    rw [pread_append]
    congr 1; omega

theorem tiles_read_linear (U : Nat) (fs : List Bytes) (hU : ∀ b ∈ fs, b.length = U) (ps : List Sub) (x y : Nat)
    (ht : Tiles U x ps y) (hy : y ≤ fs.length * U) :
    (ps.flatMap fun p => pread (fs.getD p.i []) p.off p.len) = pread fs.flatten x (y - x) :=
  tiles_read U fs.length fs.flatten (fun i o l => pread (fs.getD i []) o l)
    (fun i o l hi hol => (flatten_block_read U fs i o l hU hi hol).symm) ps x y ht hy

/-- **C16, fixed-size linear composite: a read equals the read from the concatenation, clipped at the
    composite's size.** (`n` sub-files of exactly `U` bytes; offsets inside the splitter's no-wrap domain.) -/
theorem C16_linear_pread (U : Nat) (fs : List Bytes) (hU : ∀ b ∈ fs, b.length = U) (off cnt : Nat)
    (hoff : off < fs.length * U) (hw : NoWrap U off (min cnt (fs.length * U - off))) :
    (linearPread U fs off cnt).1 = some (pread (linearFlat fs) off cnt) := by
  unfold linearPread linearFlat
  simp only [show ¬ off ≥ fs.length * U from by omega, if_false]
  congr 1
  -- the clipped count
  have hc : (if off + cnt > fs.length * U then fs.length * U - off else cnt) = min cnt (fs.length * U - off) := by
    split <;> omega
  rw [hc]
  have hflat : fs.flatten.length = fs.length * U := by
    clear hoff hw hc
    induction fs with
    | nil => simp
    | cons b r ih =>
      have hb : b.length = U := hU b (by simp)
      have := ih (fun x hx => hU x (by simp [hx]))
      simp only [List.flatten_cons, List.length_append, List.length_cons, this, hb, Nat.add_mul]; omega
  -- clipping does not change what the flat file returns
  have hclip : pread fs.flatten off cnt = pread fs.flatten off (min cnt (fs.length * U - off)) := by
    simp only [pread]
    by_cases hle : cnt ≤ fs.length * U - off
    · rw [Nat.min_eq_left hle]
    · have hl : (fs.flatten.drop off).length = fs.length * U - off := by simp [hflat]
      rw [List.take_of_length_le (by omega), List.take_of_length_le (by rw [hl]; omega)]
  rw [hclip]
  by_cases h0 : min cnt (fs.length * U - off) = 0
  · -- empty range: every part is empty
    rw [h0] at hw ⊢
    have he := Photon.RangeSplit.C15_empty U off hw
    simp only [parts, pread, List.take_zero]
    apply List.flatMap_eq_nil_iff.mpr
    intro p hp
    rw [he p hp]; simp
  · have hl : 0 < min cnt (fs.length * U - off) := by omega
    obtain ⟨_, ht, _⟩ := Photon.RangeSplit.C15_tiling U off _ hw hl
    have := tiles_read_linear U fs hU _ off _ ht (by omega)
    simp only [parts]
    rw [this]; congr 1; omega

/-! ### stripe composite -/

theorem getD_eq (l : List Bytes) (i : Nat) (h : i < l.length) : l.getD i [] = l[i] := by
  rw [List.getD_eq_getElem?_getD, List.getElem?_eq_getElem h]; rfl


/-- the stripes of the flat view, in order -/
def stripeBlocks (S : Nat) (fs : List Bytes) (rows : Nat) : List Bytes :=
  (List.range (fs.length * rows)).map fun j => pread (fs.getD (j % fs.length) []) (j / fs.length * S) S

theorem stripeFlat_eq (S : Nat) (fs : List Bytes) (rows : Nat) : stripeFlat S fs rows = (stripeBlocks S fs rows).flatten := by
  simp [stripeFlat, stripeBlocks, List.flatMap_def]

theorem pread_pread (g : Bytes) (a S o l : Nat) (h : o + l ≤ S) : pread (pread g a S) o l = pread g (a + o) l := by
  simp only [pread, List.drop_take, List.drop_drop, List.take_take]
  congr 1; omega

/-- **C16, stripe composite: a read equals the read from the flat file in which stripe `j` is row `j / n` of
    sub-file `j % n`, clipped at the composite's size.** -/
theorem C16_stripe_pread (S rows : Nat) (fs : List Bytes) (hn : 0 < fs.length) (hU : ∀ b ∈ fs, b.length = rows * S)
    (off cnt : Nat) (hoff : off < fs.length * rows * S) (hw : NoWrap S off (min cnt (fs.length * rows * S - off))) :
    (stripePread S fs rows off cnt).1 = some (pread (stripeFlat S fs rows) off cnt) := by
  unfold stripePread
  simp only [show ¬ off ≥ fs.length * rows * S from by omega, if_false]
  congr 1
  have hS : 0 < S := hw.1
  have hc : (if off + cnt > fs.length * rows * S then fs.length * rows * S - off else cnt)
      = min cnt (fs.length * rows * S - off) := by split <;> omega
  rw [hc, stripeFlat_eq]
  -- every stripe block has exactly S bytes
  have hbl : ∀ b ∈ stripeBlocks S fs rows, b.length = S := by
    intro b hb
    simp only [stripeBlocks, List.mem_map, List.mem_range] at hb
    obtain ⟨j, hj, rfl⟩ := hb
    have hlt : j % fs.length < fs.length := Nat.mod_lt _ hn
    have hfile : (fs.getD (j % fs.length) []).length = rows * S := by
      rw [getD_eq _ _ hlt]; exact hU _ (List.getElem_mem hlt)
    have hrow : j / fs.length < rows := by
      apply (Nat.div_lt_iff_lt_mul hn).mpr; rw [Nat.mul_comm]; exact hj
    rw [pread_length, hfile]
    have : (j / fs.length + 1) * S ≤ rows * S := Nat.mul_le_mul_right S hrow
    rw [Nat.add_mul] at this
    omega
  have hlen : (stripeBlocks S fs rows).length = fs.length * rows := by simp [stripeBlocks]
  have hflat : (stripeBlocks S fs rows).flatten.length = fs.length * rows * S := by
    have : ∀ (bs : List Bytes), (∀ b ∈ bs, b.length = S) → bs.flatten.length = bs.length * S := by
      intro bs h
      induction bs with
      | nil => simp
      | cons b r ih =>
        have := ih (fun x hx => h x (by simp [hx]))
        simp only [List.flatten_cons, List.length_append, List.length_cons, this, h b (by simp), Nat.add_mul]; omega
    rw [this _ hbl, hlen]
  have hclip : pread (stripeBlocks S fs rows).flatten off cnt
      = pread (stripeBlocks S fs rows).flatten off (min cnt (fs.length * rows * S - off)) := by
    simp only [pread]
    by_cases hle : cnt ≤ fs.length * rows * S - off
    · rw [Nat.min_eq_left hle]
    · have hl : ((stripeBlocks S fs rows).flatten.drop off).length = fs.length * rows * S - off := by simp [hflat]
      rw [List.take_of_length_le (by omega), List.take_of_length_le (by rw [hl]; omega)]
  rw [hclip]
  -- the per-stripe read of the composer agrees with the flat file inside every stripe
  have hrd : ∀ i o l, i < fs.length * rows → o + l ≤ S →
      pread (fs.getD (i % fs.length) []) (i / fs.length * S + o) l = pread (stripeBlocks S fs rows).flatten (i * S + o) l := by
    intro i o l hi hol
    rw [flatten_block_read S (stripeBlocks S fs rows) i o l hbl (by rw [hlen]; exact hi) hol]
    have : (stripeBlocks S fs rows).getD i [] = pread (fs.getD (i % fs.length) []) (i / fs.length * S) S := by
      rw [getD_eq _ _ (by rw [hlen]; exact hi)]
      simp [stripeBlocks]
    rw [this, pread_pread _ _ _ _ _ hol]
  by_cases h0 : min cnt (fs.length * rows * S - off) = 0
  · rw [h0] at hw ⊢
    have he := Photon.RangeSplit.C15_empty S off hw
    simp only [parts, pread, List.take_zero]
    apply List.flatMap_eq_nil_iff.mpr
    intro p hp
    rw [he p hp]; simp
  · have hl : 0 < min cnt (fs.length * rows * S - off) := by omega
    obtain ⟨_, ht, _⟩ := Photon.RangeSplit.C15_tiling S off _ hw hl
    have := tiles_read S (fs.length * rows) (stripeBlocks S fs rows).flatten
      (fun i o l => pread (fs.getD (i % fs.length) []) (i / fs.length * S + o) l) hrd _ off _ ht (by omega)
    simp only [parts]
    rw [this]; congr 1; omega

/-! ### non-vacuity / executable checks of the theorems' premises on concrete files -/
example : (alignedPread 4 true [1,2,3,4,5,6,7,8,9,10] 3 5).1 = some [4,5,6,7,8] := by decide
example : (alignedPwrite 4 true [1,2,3,4,5,6,7,8,9,10] 3 [90,91,92] [0,0,0,0,0,0,0,0]).2.1 = [1,2,3,90,91,92,7,8,9,10] := by decide
example : (alignedPwrite 4 true [1,2,3,4,5,6,7,8,9,10] 9 [90,91,92] [7,7,7,7]).2.1 = [1,2,3,4,5,6,7,8,9,90,91,92] := by decide
example : (linearPread 3 [[1,2,3],[4,5,6],[7,8,9]] 2 5).1 = some [3,4,5,6,7] := by decide
example : (stripePread 2 [[1,2,5,6],[3,4,7,8]] 2 1 6).1 = some [2,3,4,5,6,7] := by decide

end Photon.File
