import Photon.Model.File
import Photon.Properties.C15
/-!
# C16 — file adaptors (aligned, linear, striped) are transparent to readers and writers

* `C16_aligned_pread`: through the alignment adaptor a read that starts before end-of-file returns exactly what the
  plain file returns, for every alignment, content, offset, length (and whatever the memory-alignment mode).
* `C16_aligned_requests_read` / `C16_aligned_requests_write`: every read/write request the adaptor issues to the
  underlying file has offset and length that are multiples of the alignment.
* `C16_linear_pread`, `C16_stripe_pread`: a read from a fixed-size linear / stripe composite equals the read from the
  flat file of the concatenated / striped layout, clipped at the composite's size; the parts are those of the C15
  model of `range_split` (`C15_tiling` supplies the tiling).
The write paths (aligned `pwrite` with its read-modify-write and truncation, composite writes, the vectored variants,
the variable-size composite) are executable in the model and tied to the code by the differential check; they have
no closed-form theorem here (see DESIGN.md).
-/
namespace Photon.File
open Photon.RangeSplit (Sub Tiles allParts init fixedDiv NoWrap W)

theorem pread_length (f : Bytes) (off cnt : Nat) : (pread f off cnt).length = min cnt (f.length - off) := by
  simp [pread]

/-! ### alignment adaptor: reads -/

theorem alignedBegin_le (A off : Nat) : alignedBegin A off ≤ off := Nat.div_mul_le_self off A

theorem alignedBegin_add (A off : Nat) : alignedBegin A off + off % A = off := by
  unfold alignedBegin; rw [Nat.mul_comm]; exact Nat.div_add_mod off A

theorem le_alignedEnd (A off cnt : Nat) (hA : 0 < A) : off + cnt ≤ alignedEnd A off cnt := by
  unfold alignedEnd
  have h1 := Nat.div_add_mod (off + cnt + A - 1) A
  have h2 := Nat.mod_lt (off + cnt + A - 1) hA
  rw [Nat.mul_comm] at h1
  omega

/-- **C16, aligned read = plain read.** -/
theorem C16_aligned_pread (A : Nat) (hA : 0 < A) (memOk : Bool) (f : Bytes) (off cnt : Nat) (hoff : off < f.length) :
    (alignedPread A memOk f off cnt).1 = some (pread f off cnt) := by
  unfold alignedPread
  by_cases h0 : cnt = 0
  · subst h0; simp [pread]
  · rw [if_neg h0]
    by_cases hal : (isAligned A off cnt && memOk) = true
    · rw [if_pos hal]
    · rw [if_neg hal]
      have hb := alignedBegin_add A off
      have hble := alignedBegin_le A off
      have he := le_alignedEnd A off cnt hA
      have hlen : (pread f (alignedBegin A off) (alignedEnd A off cnt - alignedBegin A off)).length
          = min (alignedEnd A off cnt - alignedBegin A off) (f.length - alignedBegin A off) := pread_length _ _ _
      have hnot : ¬ (pread f (alignedBegin A off) (alignedEnd A off cnt - alignedBegin A off)).length < off % A := by
        rw [hlen]; omega
      simp only [hnot, if_false]
      congr 1
      rw [hlen]
      simp only [pread, List.drop_take, List.drop_drop, List.take_take]
      have e1 : alignedBegin A off + off % A = off := hb
      rw [e1]
      -- both sides are prefixes of `f.drop off`; compare the lengths
      by_cases hc : cnt ≤ f.length - off
      · congr 1; omega
      · have hl : (f.drop off).length = f.length - off := by simp
        rw [List.take_of_length_le (by rw [hl]; omega), List.take_of_length_le (by rw [hl]; omega)]

/-! ### alignment adaptor: every underlay request is aligned -/

def ReqAligned (A : Nat) (r : Req) : Prop := r.kind = 2 ∨ (r.off % A = 0 ∧ r.len % A = 0)

theorem alignedBegin_mod (A off : Nat) : alignedBegin A off % A = 0 := by
  unfold alignedBegin; exact Nat.mul_mod_left _ _

theorem alignedLen_mod (A off cnt : Nat) : (alignedEnd A off cnt - alignedBegin A off) % A = 0 := by
  unfold alignedEnd alignedBegin
  rw [← Nat.sub_mul]; exact Nat.mul_mod_left _ _

theorem isAligned_iff (A off cnt : Nat) : isAligned A off cnt = true ↔ off % A = 0 ∧ cnt % A = 0 := by
  simp [isAligned]

/-- **C16, alignment of read requests.** -/
theorem C16_aligned_requests_read (A : Nat) (memOk : Bool) (f : Bytes) (off cnt : Nat) :
    ∀ r ∈ (alignedPread A memOk f off cnt).2, ReqAligned A r := by
  unfold alignedPread
  intro r hr
  by_cases h0 : cnt = 0
  · rw [if_pos h0] at hr; simp at hr
  · rw [if_neg h0] at hr
    by_cases hal : (isAligned A off cnt && memOk) = true
    · rw [if_pos hal] at hr
      simp only [List.mem_singleton] at hr
      subst hr
      have := (isAligned_iff A off cnt).mp (by simp only [Bool.and_eq_true] at hal; exact hal.1)
      exact Or.inr this
    · rw [if_neg hal] at hr
      have : r = ⟨0, 0, alignedBegin A off, alignedEnd A off cnt - alignedBegin A off⟩ := by
        dsimp only at hr
        split at hr <;> simpa using hr
      subst this
      exact Or.inr ⟨alignedBegin_mod A off, alignedLen_mod A off cnt⟩

theorem alignedEnd_sub_mod (A off cnt : Nat) (hA : 0 < A) (hc : 0 < cnt) : (alignedEnd A off cnt - A) % A = 0 := by
  unfold alignedEnd
  have hq : 1 ≤ (off + cnt + A - 1) / A := by
    apply (Nat.le_div_iff_mul_le hA).mpr; omega
  have : (off + cnt + A - 1) / A * A - A = ((off + cnt + A - 1) / A - 1) * A := by
    rw [Nat.sub_mul]; simp
  rw [this]; exact Nat.mul_mod_left _ _

theorem mem_ite_singleton {c : Prop} [Decidable c] {x r : Req} (h : r ∈ (if c then [x] else [])) : r = x := by
  split at h <;> simp_all

/-- **C16, alignment of write requests** (the read-modify-write of the first and last block, the write itself;
    `ftruncate` is exempt: it carries the exact logical size). -/
theorem C16_aligned_requests_write (A : Nat) (hA : 0 < A) (memOk : Bool) (f : Bytes) (off : Nat) (d junk : Bytes) :
    ∀ r ∈ (alignedPwrite A memOk f off d junk).2.2, ReqAligned A r := by
  unfold alignedPwrite
  intro r hr
  by_cases h0 : d.length = 0
  · simp only [h0, if_true] at hr; simp at hr
  · simp only [h0, if_false] at hr
    by_cases hal : (isAligned A off d.length && memOk) = true
    · rw [if_pos hal] at hr
      simp only [List.mem_singleton] at hr
      subst hr
      have := (isAligned_iff A off d.length).mp (by simp only [Bool.and_eq_true] at hal; exact hal.1)
      exact Or.inr this
    · rw [if_neg hal] at hr
      have hw : ReqAligned A ⟨1, 0, alignedBegin A off, alignedEnd A off d.length - alignedBegin A off⟩ :=
        Or.inr ⟨alignedBegin_mod A off, alignedLen_mod A off d.length⟩
      have hr1 : ReqAligned A ⟨0, 0, alignedBegin A off, A⟩ := Or.inr ⟨alignedBegin_mod A off, Nat.mod_self A⟩
      have hr2 : ReqAligned A ⟨0, 0, alignedEnd A off d.length - A, A⟩ :=
        Or.inr ⟨alignedEnd_sub_mod A off d.length hA (by omega), Nat.mod_self A⟩
      have ht : ∀ n, ReqAligned A ⟨2, 0, n, 0⟩ := fun n => Or.inl rfl
      dsimp only at hr
      unfold pwriteLog at hr
      simp only [List.mem_append, List.mem_singleton] at hr
      rcases hr with ((h1 | h2) | h3) | h4
      · rw [mem_ite_singleton h1]; exact hr1
      · rw [mem_ite_singleton h2]; exact hr2
      · subst h3; exact hw
      · rw [mem_ite_singleton h4]; exact ht _

/-! ### composers: reads -/

theorem pread_append (f : Bytes) (x a b : Nat) : pread f x a ++ pread f (x + a) b = pread f x (a + b) := by
  simp only [pread]
  rw [List.take_add, ← List.drop_drop]

theorem Tiles_le (iv : Nat) : ∀ (ps : List Sub) (x y : Nat), Tiles iv x ps y → x ≤ y
  | [], x, y, h => by simp only [Tiles] at h; omega
  | p :: r, x, y, h => by
    simp only [Tiles, Sub.lo, Sub.hi] at h
    obtain ⟨h1, _, _, h4⟩ := h
    have := Tiles_le iv r _ y h4
    omega

/-- reading inside block `i` of the concatenation of equal-size blocks -/
theorem flatten_block_read (U : Nat) : ∀ (fs : List Bytes) (i o l : Nat), (∀ b ∈ fs, b.length = U) → i < fs.length →
    o + l ≤ U → pread fs.flatten (i * U + o) l = pread (fs.getD i []) o l
  | [], i, o, l, _, hi, _ => by exact absurd hi (by simp)
  | b :: fs, 0, o, l, hU, _, hol => by
    have hb : b.length = U := hU b (by simp)
    simp only [pread, List.flatten_cons, Nat.zero_mul, Nat.zero_add, List.getD_cons_zero]
    rw [List.drop_append_of_le_length (by omega), List.take_append_of_le_length (by simp; omega)]
  | b :: fs, i + 1, o, l, hU, hi, hol => by
    have hb : b.length = U := hU b (by simp)
    have ih := flatten_block_read U fs i o l (fun x hx => hU x (by simp [hx])) (by simpa using hi) hol
    simp only [pread, List.flatten_cons, List.getD_cons_succ] at ih ⊢
    have : (i + 1) * U + o = b.length + (i * U + o) := by rw [Nat.add_mul, hb]; omega
    rw [this, List.drop_append]
    have hd : List.drop (b.length + (i * U + o)) b = [] := List.drop_eq_nil_of_le (by omega)
    rw [hd, List.nil_append, Nat.add_sub_cancel_left]
    exact ih

/-- the parts of a tiling read, one after the other, exactly the flat range — for any per-block read function
    `rd` that agrees with the flat file inside each of the `N` blocks -/
theorem tiles_read (U N : Nat) (flat : Bytes) (rd : Nat → Nat → Nat → Bytes)
    (hrd : ∀ i o l, i < N → o + l ≤ U → rd i o l = pread flat (i * U + o) l) :
    ∀ (ps : List Sub) (x y : Nat), Tiles U x ps y → y ≤ N * U →
      (ps.flatMap fun p => rd p.i p.off p.len) = pread flat x (y - x)
  | [], x, y, h, _ => by simp only [Tiles] at h; subst h; simp [pread]
  | p :: r, x, y, h, hy => by
    simp only [Tiles] at h
    obtain ⟨h1, h2, h3, h4⟩ := h
    have hle := Tiles_le U r _ y h4
    have ih := tiles_read U N flat rd hrd r _ y h4 hy
    simp only [Sub.lo, Sub.hi] at h1 hle ih
    have hi : p.i < N := by
      by_cases hc : p.i < N
      · exact hc
      · exfalso
        have : N * U ≤ p.i * U := Nat.mul_le_mul_right U (by omega)
        omega
    rw [List.flatMap_cons, ih, hrd p.i p.off p.len hi h3, h1]
    rw [pread_append]
    congr 1; omega

theorem tiles_read_linear (U : Nat) (fs : List Bytes) (hU : ∀ b ∈ fs, b.length = U) (ps : List Sub) (x y : Nat)
    (ht : Tiles U x ps y) (hy : y ≤ fs.length * U) :
    (ps.flatMap fun p => pread (fs.getD p.i []) p.off p.len) = pread fs.flatten x (y - x) :=
  tiles_read U fs.length fs.flatten (fun i o l => pread (fs.getD i []) o l)
    (fun i o l hi hol => (flatten_block_read U fs i o l hU hi hol).symm) ps x y ht hy

/-- **C16, fixed-size linear composite: a read equals the read from the concatenation, clipped at the
    composite's size.** (`n` sub-files of exactly `U` bytes; offsets inside the splitter's no-wrap domain.) -/
theorem C16_linear_pread (U : Nat) (fs : List Bytes) (hU : ∀ b ∈ fs, b.length = U) (off cnt : Nat)
    (hoff : off < fs.length * U) (hw : NoWrap U off (min cnt (fs.length * U - off))) :
    (linearPread U fs off cnt).1 = some (pread (linearFlat fs) off cnt) := by
  unfold linearPread linearFlat
  simp only [show ¬ off ≥ fs.length * U from by omega, if_false]
  congr 1
  -- the clipped count
  have hc : (if off + cnt > fs.length * U then fs.length * U - off else cnt) = min cnt (fs.length * U - off) := by
    split <;> omega
  rw [hc]
  have hflat : fs.flatten.length = fs.length * U := by
    clear hoff hw hc
    induction fs with
    | nil => simp
    | cons b r ih =>
      have hb : b.length = U := hU b (by simp)
      have := ih (fun x hx => hU x (by simp [hx]))
      simp only [List.flatten_cons, List.length_append, List.length_cons, this, hb, Nat.add_mul]; omega
  -- clipping does not change what the flat file returns
  have hclip : pread fs.flatten off cnt = pread fs.flatten off (min cnt (fs.length * U - off)) := by
    simp only [pread]
    by_cases hle : cnt ≤ fs.length * U - off
    · rw [Nat.min_eq_left hle]
    · have hl : (fs.flatten.drop off).length = fs.length * U - off := by simp [hflat]
      rw [List.take_of_length_le (by omega), List.take_of_length_le (by rw [hl]; omega)]
  rw [hclip]
  by_cases h0 : min cnt (fs.length * U - off) = 0
  · -- empty range: every part is empty
    rw [h0] at hw ⊢
    have he := Photon.RangeSplit.C15_empty U off hw
    simp only [parts, pread, List.take_zero]
    apply List.flatMap_eq_nil_iff.mpr
    intro p hp
    rw [he p hp]; simp
  · have hl : 0 < min cnt (fs.length * U - off) := by omega
    obtain ⟨_, ht, _⟩ := Photon.RangeSplit.C15_tiling U off _ hw hl
    have := tiles_read_linear U fs hU _ off _ ht (by omega)
    simp only [parts]
    rw [this]; congr 1; omega

/-! ### stripe composite -/

theorem getD_eq (l : List Bytes) (i : Nat) (h : i < l.length) : l.getD i [] = l[i] := by
  rw [List.getD_eq_getElem?_getD, List.getElem?_eq_getElem h]; rfl


/-- the stripes of the flat view, in order -/
def stripeBlocks (S : Nat) (fs : List Bytes) (rows : Nat) : List Bytes :=
  (List.range (fs.length * rows)).map fun j => pread (fs.getD (j % fs.length) []) (j / fs.length * S) S

theorem stripeFlat_eq (S : Nat) (fs : List Bytes) (rows : Nat) : stripeFlat S fs rows = (stripeBlocks S fs rows).flatten := by
  simp [stripeFlat, stripeBlocks, List.flatMap_def]

theorem pread_pread (g : Bytes) (a S o l : Nat) (h : o + l ≤ S) : pread (pread g a S) o l = pread g (a + o) l := by
  simp only [pread, List.drop_take, List.drop_drop, List.take_take]
  congr 1; omega

/-- **C16, stripe composite: a read equals the read from the flat file in which stripe `j` is row `j / n` of
    sub-file `j % n`, clipped at the composite's size.** -/
theorem C16_stripe_pread (S rows : Nat) (fs : List Bytes) (hn : 0 < fs.length) (hU : ∀ b ∈ fs, b.length = rows * S)
    (off cnt : Nat) (hoff : off < fs.length * rows * S) (hw : NoWrap S off (min cnt (fs.length * rows * S - off))) :
    (stripePread S fs rows off cnt).1 = some (pread (stripeFlat S fs rows) off cnt) := by
  unfold stripePread
  simp only [show ¬ off ≥ fs.length * rows * S from by omega, if_false]
  congr 1
  have hS : 0 < S := hw.1
  have hc : (if off + cnt > fs.length * rows * S then fs.length * rows * S - off else cnt)
      = min cnt (fs.length * rows * S - off) := by split <;> omega
  rw [hc, stripeFlat_eq]
  -- every stripe block has exactly S bytes
  have hbl : ∀ b ∈ stripeBlocks S fs rows, b.length = S := by
    intro b hb
    simp only [stripeBlocks, List.mem_map, List.mem_range] at hb
    obtain ⟨j, hj, rfl⟩ := hb
    have hlt : j % fs.length < fs.length := Nat.mod_lt _ hn
    have hfile : (fs.getD (j % fs.length) []).length = rows * S := by
      rw [getD_eq _ _ hlt]; exact hU _ (List.getElem_mem hlt)
    have hrow : j / fs.length < rows := by
      apply (Nat.div_lt_iff_lt_mul hn).mpr; rw [Nat.mul_comm]; exact hj
    rw [pread_length, hfile]
    have : (j / fs.length + 1) * S ≤ rows * S := Nat.mul_le_mul_right S hrow
    rw [Nat.add_mul] at this
    omega
  have hlen : (stripeBlocks S fs rows).length = fs.length * rows := by simp [stripeBlocks]
  have hflat : (stripeBlocks S fs rows).flatten.length = fs.length * rows * S := by
    have : ∀ (bs : List Bytes), (∀ b ∈ bs, b.length = S) → bs.flatten.length = bs.length * S := by
      intro bs h
      induction bs with
      | nil => simp
      | cons b r ih =>
        have := ih (fun x hx => h x (by simp [hx]))
        simp only [List.flatten_cons, List.length_append, List.length_cons, this, h b (by simp), Nat.add_mul]; omega
    rw [this _ hbl, hlen]
  have hclip : pread (stripeBlocks S fs rows).flatten off cnt
      = pread (stripeBlocks S fs rows).flatten off (min cnt (fs.length * rows * S - off)) := by
    simp only [pread]
    by_cases hle : cnt ≤ fs.length * rows * S - off
    · rw [Nat.min_eq_left hle]
    · have hl : ((stripeBlocks S fs rows).flatten.drop off).length = fs.length * rows * S - off := by simp [hflat]
      rw [List.take_of_length_le (by omega), List.take_of_length_le (by rw [hl]; omega)]
  rw [hclip]
  -- the per-stripe read of the composer agrees with the flat file inside every stripe
  have hrd : ∀ i o l, i < fs.length * rows → o + l ≤ S →
      pread (fs.getD (i % fs.length) []) (i / fs.length * S + o) l = pread (stripeBlocks S fs rows).flatten (i * S + o) l := by
    intro i o l hi hol
    rw [flatten_block_read S (stripeBlocks S fs rows) i o l hbl (by rw [hlen]; exact hi) hol]
    have : (stripeBlocks S fs rows).getD i [] = pread (fs.getD (i % fs.length) []) (i / fs.length * S) S := by
      rw [getD_eq _ _ (by rw [hlen]; exact hi)]
      simp [stripeBlocks]
    rw [this, pread_pread _ _ _ _ _ hol]
  by_cases h0 : min cnt (fs.length * rows * S - off) = 0
  · rw [h0] at hw ⊢
    have he := Photon.RangeSplit.C15_empty S off hw
    simp only [parts, pread, List.take_zero]
    apply List.flatMap_eq_nil_iff.mpr
    intro p hp
    rw [he p hp]; simp
  · have hl : 0 < min cnt (fs.length * rows * S - off) := by omega
    obtain ⟨_, ht, _⟩ := Photon.RangeSplit.C15_tiling S off _ hw hl
    have := tiles_read S (fs.length * rows) (stripeBlocks S fs rows).flatten
      (fun i o l => pread (fs.getD (i % fs.length) []) (i / fs.length * S + o) l) hrd _ off _ ht (by omega)
    simp only [parts]
    rw [this]; congr 1; omega

/-! ### non-vacuity / executable checks of the theorems' premises on concrete files -/
example : (alignedPread 4 true [1,2,3,4,5,6,7,8,9,10] 3 5).1 = some [4,5,6,7,8] := by decide
example : (alignedPwrite 4 true [1,2,3,4,5,6,7,8,9,10] 3 [90,91,92] [0,0,0,0,0,0,0,0]).2.1 = [1,2,3,90,91,92,7,8,9,10] := by decide
example : (alignedPwrite 4 true [1,2,3,4,5,6,7,8,9,10] 9 [90,91,92] [7,7,7,7]).2.1 = [1,2,3,4,5,6,7,8,9,90,91,92] := by decide
example : (linearPread 3 [[1,2,3],[4,5,6],[7,8,9]] 2 5).1 = some [3,4,5,6,7] := by decide
example : (stripePread 2 [[1,2,5,6],[3,4,7,8]] 2 1 6).1 = some [2,3,4,5,6,7] := by decide


/-! ### writes: the alignment adaptor, the fixed-size linear composite and the stripe composite -/

theorem get_extend (f : Bytes) (n i : Nat) :
    (extend f n)[i]? = if i < f.length then f[i]? else if i < n then some 0 else none := by
  unfold extend
  rw [List.getElem?_append]
  split
  · rfl
  · rw [List.getElem?_replicate]
    split <;> split <;> first | rfl | omega

theorem extend_length (f : Bytes) (n : Nat) : (extend f n).length = max f.length n := by
  unfold extend; simp; omega

theorem get_pread (f : Bytes) (off cnt i : Nat) : (pread f off cnt)[i]? = if i < cnt then f[off + i]? else none := by
  unfold pread
  rw [List.getElem?_take]
  split
  · rw [List.getElem?_drop]
  · rfl

theorem blit_length (buf d : Bytes) (pos : Nat) (h : pos + d.length ≤ buf.length) : (blit buf pos d).length = buf.length := by
  unfold blit; simp; omega

theorem get_blit (buf d : Bytes) (pos i : Nat) (h : pos + d.length ≤ buf.length) :
    (blit buf pos d)[i]? = if i < pos then buf[i]? else if i < pos + d.length then d[i - pos]? else buf[i]? := by
  unfold blit
  simp only [List.getElem?_append, List.length_append, List.length_take, List.getElem?_take, List.getElem?_drop]
  have e1 : min pos buf.length = pos := by omega
  rw [e1]
  by_cases h1 : i < pos
  · have : i < pos + d.length := by omega
    simp [h1, this]
  · by_cases h2 : i < pos + d.length
    · simp [h1, h2]
    · simp only [h1, h2, if_false]
      congr 1; omega

theorem get_pwrite (f d : Bytes) (off i : Nat) :
    (pwrite f off d)[i]? =
      if i < off then (if i < f.length then f[i]? else some 0)
      else if i < off + d.length then d[i - off]? else f[i]? := by
  unfold pwrite
  simp only [List.getElem?_append, List.length_append, List.length_take, extend_length, List.getElem?_take,
    List.getElem?_drop, get_extend]
  have e1 : min off (max f.length (off + d.length)) = off := by omega
  rw [e1]
  by_cases h1 : i < off
  · have : i < off + d.length := by omega
    simp only [h1, if_true, this]
  · simp only [h1, if_false]
    by_cases h2 : i < off + d.length
    · simp only [h2, if_true]
    · simp only [h2, if_false]
      have e2 : off + d.length + (i - (off + d.length)) = i := by omega
      rw [e2]
      split
      · rfl
      · rename_i h3
        rw [List.getElem?_eq_none (by omega)]

theorem pwrite_length (f d : Bytes) (off : Nat) : (pwrite f off d).length = max f.length (off + d.length) := by
  unfold pwrite; simp [extend_length]; omega

theorem get_ftruncate (f : Bytes) (n i : Nat) :
    (ftruncate f n)[i]? = if i < n then (if i < f.length then f[i]? else some 0) else none := by
  unfold ftruncate
  rw [List.getElem?_take]
  split
  · rw [get_extend]
    split
    · rfl
    · rename_i h1 h2; simp [h1]
  · rfl

def firstBlock (A ab : Nat) (f : Bytes) : Bytes := pread f ab A ++ List.replicate (A - (pread f ab A).length) 0
def buf1 (A ab br : Nat) (f junk : Bytes) : Bytes := if br > 0 then blit junk 0 (firstBlock A ab f) else junk
def buf2 (A ab ae : Nat) (lrc : Bool) (f b1 : Bytes) : Bytes := if lrc then blit b1 (ae - A - ab) (pread f (ae - A) A) else b1

theorem firstBlock_length (A ab : Nat) (f : Bytes) : (firstBlock A ab f).length = A := by
  simp [firstBlock, pread_length]; omega

theorem get_firstBlock (A ab : Nat) (f : Bytes) (j : Nat) :
    (firstBlock A ab f)[j]? = if j < A then (if ab + j < f.length then f[ab + j]? else some 0) else none := by
  unfold firstBlock
  rw [List.getElem?_append, pread_length, get_pread, List.getElem?_replicate]
  by_cases h1 : j < A
  · by_cases h2 : ab + j < f.length
    · have : j < min A (f.length - ab) := by omega
      simp [h1, h2, this]
    · have : ¬ j < min A (f.length - ab) := by omega
      simp only [this, if_false, h1, if_true, h2]
      have : j - min A (f.length - ab) < A - min A (f.length - ab) := by omega
      simp [this]
  · have : ¬ j < min A (f.length - ab) := by omega
    simp only [this, if_false, h1]
    have : ¬ (j - min A (f.length - ab) < A - min A (f.length - ab)) := by omega
    simp [this]

theorem buf1_length (A ab br : Nat) (f junk : Bytes) (h : A ≤ junk.length) : (buf1 A ab br f junk).length = junk.length := by
  unfold buf1; split
  · rw [blit_length]; rw [firstBlock_length]; omega
  · rfl

theorem get_buf1 (A ab br : Nat) (f junk : Bytes) (h : A ≤ junk.length) (j : Nat) :
    (buf1 A ab br f junk)[j]? = if br > 0 ∧ j < A then (if ab + j < f.length then f[ab + j]? else some 0) else junk[j]? := by
  unfold buf1
  by_cases hb : br > 0
  · rw [if_pos hb, get_blit _ _ _ _ (by rw [firstBlock_length]; omega), firstBlock_length]
    by_cases hj : j < A
    · have h0 : ¬ j < 0 := by omega
      have h1 : j < 0 + A := by omega
      simp only [h0, if_false, h1, if_true, Nat.sub_zero, get_firstBlock, hj, hb, and_self]
    · have h0 : ¬ j < 0 := by omega
      have h1 : ¬ j < 0 + A := by omega
      simp [h0, h1, hj]
  · rw [if_neg hb]; simp [hb]

theorem buf2_length (A ab ae : Nat) (lrc : Bool) (f b1 : Bytes) (h : ae - A - ab + A ≤ b1.length) : (buf2 A ab ae lrc f b1).length = b1.length := by
  unfold buf2; split
  · rw [blit_length]; rw [pread_length]; omega
  · rfl

theorem get_buf2 (A ab ae : Nat) (lrc : Bool) (f b1 : Bytes) (h : ae - A - ab + A ≤ b1.length) (j : Nat) :
    (buf2 A ab ae lrc f b1)[j]? =
      if lrc = true ∧ ae - A - ab ≤ j ∧ j < ae - A - ab + min A (f.length - (ae - A)) then f[ae - A + (j - (ae - A - ab))]? else b1[j]? := by
  unfold buf2
  by_cases hl : lrc = true
  · rw [if_pos hl, get_blit _ _ _ _ (by rw [pread_length]; omega), pread_length, get_pread]
    by_cases h1 : j < ae - A - ab
    · have : ¬ (ae - A - ab ≤ j) := by omega
      simp [h1, this]
    · by_cases h2 : j < ae - A - ab + min A (f.length - (ae - A))
      · have : j - (ae - A - ab) < A := by omega
        simp [h1, h2, hl, this]; omega
      · simp [h1, h2]
  · rw [if_neg hl]; simp [hl]

theorem dvd_lt_two (A x : Nat) (hd : A ∣ x) (h0 : 0 < x) (h2 : x < 2 * A) : x = A := by
  obtain ⟨k, hk⟩ := hd
  subst hk
  have hk1 : k ≥ 1 := by
    cases k with
    | zero => simp at h0
    | succ k => omega
  have hk2 : k < 2 := by
    by_cases h : k < 2
    · exact h
    · have : 2 ≤ k := by omega
      have := Nat.mul_le_mul_left A this
      omega
  have : k = 1 := by omega
  subst this; simp

theorem aend_dvd (A off cnt : Nat) : A ∣ alignedEnd A off cnt := by
  unfold alignedEnd; exact Nat.dvd_mul_left _ _

theorem aend_bounds (A off cnt : Nat) (hA : 0 < A) : off + cnt ≤ alignedEnd A off cnt ∧ alignedEnd A off cnt < off + cnt + A := by
  refine ⟨le_alignedEnd A off cnt hA, ?_⟩
  unfold alignedEnd
  have h1 := Nat.div_add_mod (off + cnt + A - 1) A
  rw [Nat.mul_comm] at h1
  omega

theorem aend_cases (A off cnt : Nat) (hA : 0 < A) :
    ((off + cnt) % A = 0 → alignedEnd A off cnt = off + cnt) ∧
    ((off + cnt) % A > 0 → alignedEnd A off cnt + (off + cnt) % A = off + cnt + A) := by
  have hb := aend_bounds A off cnt hA
  have hd := aend_dvd A off cnt
  have hn := Nat.div_add_mod (off + cnt) A
  have hr := Nat.mod_lt (off + cnt) hA
  constructor
  · intro h0
    have hdn : A ∣ off + cnt := Nat.dvd_of_mod_eq_zero h0
    have : A ∣ alignedEnd A off cnt - (off + cnt) := Nat.dvd_sub hd hdn
    have := Nat.eq_zero_of_dvd_of_lt this (by omega)
    omega
  · intro hpos
    have hdn : A ∣ (off + cnt) - (off + cnt) % A := by
      have : (off + cnt) - (off + cnt) % A = A * ((off + cnt) / A) := by omega
      rw [this]; exact Nat.dvd_mul_right _ _
    have h3 : A ∣ alignedEnd A off cnt - ((off + cnt) - (off + cnt) % A) := Nat.dvd_sub hd hdn
    have := dvd_lt_two A _ h3 (by omega) (by omega)
    omega

theorem abegin_facts (A off : Nat) (hA : 0 < A) : alignedBegin A off + off % A = off ∧ off % A < A ∧ A ∣ alignedBegin A off :=
  ⟨alignedBegin_add A off, Nat.mod_lt off hA, by unfold alignedBegin; exact Nat.dvd_mul_left _ _⟩

def pwCore (A ab ae br : Nat) (lrc : Bool) (f : Bytes) (off : Nat) (d junk : Bytes) : Bytes :=
  let b3 := blit (buf2 A ab ae lrc f (buf1 A ab br f junk)) br d
  let f1 := pwrite f ab (b3.take (ae - ab))
  let suppose := if off + d.length > f.length then off + d.length else f.length
  if suppose < ab + (ae - ab) then ftruncate f1 suppose else f1

theorem pwCore_spec (A ab ae br : Nat) (lrc : Bool) (f : Bytes) (off : Nat) (d junk : Bytes)
    (hA : 0 < A) (hc : 0 < d.length) (hab : ab + br = off) (hbr : br < A) (hbe : ab + A ≤ ae)
    (he1 : off + d.length ≤ ae) (he2 : ae < off + d.length + A) (hj : junk.length = ae - ab)
    (hm : ae = ab + A ∨ ab + 2 * A ≤ ae)
    (hl : lrc = true ↔ (f.length > off + d.length ∧ off + d.length < ae ∧ ¬ (ae = ab + A ∧ br > 0))) :
    pwCore A ab ae br lrc f off d junk = pwrite f off d := by
  have hjA : A ≤ junk.length := by omega
  have l1 : (buf1 A ab br f junk).length = ae - ab := by rw [buf1_length _ _ _ _ _ hjA, hj]
  have hb2 : ae - A - ab + A ≤ (buf1 A ab br f junk).length := by rw [l1]; omega
  have l2 : (buf2 A ab ae lrc f (buf1 A ab br f junk)).length = ae - ab := by rw [buf2_length _ _ _ _ _ _ hb2, l1]
  have hb3 : br + d.length ≤ (buf2 A ab ae lrc f (buf1 A ab br f junk)).length := by rw [l2]; omega
  have l3 : (blit (buf2 A ab ae lrc f (buf1 A ab br f junk)) br d).length = ae - ab := by rw [blit_length _ _ _ hb3, l2]
  unfold pwCore
  simp only []
  rw [List.take_of_length_le (by rw [l3]; exact Nat.le_refl _)]
  have e1 : ab + (ae - ab) = ae := by omega
  rw [e1]
  apply List.ext_getElem?
  intro i
  -- the buffer at position j
  have g3 : ∀ j, (blit (buf2 A ab ae lrc f (buf1 A ab br f junk)) br d)[j]? =
      if j < br then (buf2 A ab ae lrc f (buf1 A ab br f junk))[j]? else if j < br + d.length then d[j - br]?
      else (buf2 A ab ae lrc f (buf1 A ab br f junk))[j]? := fun j => get_blit _ _ _ _ hb3
  have g2 := get_buf2 A ab ae lrc f (buf1 A ab br f junk) hb2
  have g1 := get_buf1 A ab br f junk hjA
  -- f1 at position i
  have gf1 : (pwrite f ab (blit (buf2 A ab ae lrc f (buf1 A ab br f junk)) br d))[i]? =
      if i < ab then (if i < f.length then f[i]? else some 0)
      else if i < ae then (blit (buf2 A ab ae lrc f (buf1 A ab br f junk)) br d)[i - ab]? else f[i]? := by
    rw [get_pwrite, l3, e1]
  have lf1 : (pwrite f ab (blit (buf2 A ab ae lrc f (buf1 A ab br f junk)) br d)).length = max f.length ae := by
    rw [pwrite_length, l3, e1]
  rw [get_pwrite]
  have hS : (if off + d.length > f.length then off + d.length else f.length) = max f.length (off + d.length) := by
    split <;> omega
  rw [hS]
  -- value of the bounce buffer at the positions of the four regions of [ab, ae)
  have tailv : ∀ j, br + d.length ≤ j → j < ae - ab → (blit (buf2 A ab ae lrc f (buf1 A ab br f junk)) br d)[j]? = (buf2 A ab ae lrc f (buf1 A ab br f junk))[j]? := by
    intro j h1 _
    rw [g3]; rw [if_neg (by omega), if_neg (by omega)]
  by_cases r1 : i < ab
  · -- below the first block: untouched (zero-filled if the file was shorter)
    have hio : i < off := by omega
    rw [if_pos hio]
    by_cases ht : max f.length (off + d.length) < ae
    · rw [if_pos ht, get_ftruncate, lf1, gf1, if_pos (by omega), if_pos (by omega), if_pos r1]
    · rw [if_neg ht, gf1, if_pos r1]
  · by_cases r2 : i < off
    · -- the part of the first block in front of the data: br > 0, the block was read (zero-filled)
      have hbr0 : br > 0 := by omega
      rw [if_pos r2]
      have hv : (blit (buf2 A ab ae lrc f (buf1 A ab br f junk)) br d)[i - ab]? = if i < f.length then f[i]? else some 0 := by
        rw [g3, if_pos (by omega), g2]
        have hno : ¬ (lrc = true ∧ ae - A - ab ≤ i - ab ∧ i - ab < ae - A - ab + min A (f.length - (ae - A))) := by
          intro ⟨hl1, h2, _⟩
          have := hl.1 hl1
          by_cases hs : ae = ab + A
          · exact this.2.2 ⟨hs, hbr0⟩
          · omega
        rw [if_neg hno, g1, if_pos ⟨hbr0, by omega⟩]
        have : ab + (i - ab) = i := by omega
        rw [this]
      by_cases ht : max f.length (off + d.length) < ae
      · rw [if_pos ht, get_ftruncate, lf1, gf1, if_pos (by omega), if_pos (by omega), if_neg r1, if_pos (by omega), hv]
      · rw [if_neg ht, gf1, if_neg r1, if_pos (by omega), hv]
    · rw [if_neg r2]
      by_cases r3 : i < off + d.length
      · -- the data
        rw [if_pos r3]
        have hv : (blit (buf2 A ab ae lrc f (buf1 A ab br f junk)) br d)[i - ab]? = d[i - off]? := by
          rw [g3, if_neg (by omega), if_pos (by omega)]
          congr 1; omega
        by_cases ht : max f.length (off + d.length) < ae
        · rw [if_pos ht, get_ftruncate, lf1, gf1, if_pos (by omega), if_pos (by omega), if_neg r1, if_pos (by omega), hv]
        · rw [if_neg ht, gf1, if_neg r1, if_pos (by omega), hv]
      · rw [if_neg r3]
        by_cases r4 : i < ae
        · -- the rest of the last block
          have hv0 := tailv (i - ab) (by omega) (by omega)
          by_cases hlr : lrc = true
          · -- it was read from the file
            have hfacts := hl.1 hlr
            by_cases hif : i < f.length
            · have hlt : i - ab < ae - A - ab + min A (f.length - (ae - A)) := by
                rw [Nat.min_def]; split <;> omega
              have hv : (blit (buf2 A ab ae lrc f (buf1 A ab br f junk)) br d)[i - ab]? = f[i]? := by
                rw [hv0, g2, if_pos ⟨hlr, by omega, hlt⟩]
                congr 1; omega
              by_cases ht : max f.length (off + d.length) < ae
              · rw [if_pos ht, get_ftruncate, lf1, gf1, if_pos (by omega), if_pos (by omega), if_neg r1, if_pos r4, hv]
              · rw [if_neg ht, gf1, if_neg r1, if_pos r4, hv]
            · -- beyond the end of the file: cut off again
              have ht : max f.length (off + d.length) < ae := by omega
              rw [if_pos ht, get_ftruncate, if_neg (by omega), List.getElem?_eq_none (by omega)]
          · -- it was not read
            have hnl : ¬ (f.length > off + d.length ∧ off + d.length < ae ∧ ¬ (ae = ab + A ∧ br > 0)) := fun h => hlr (hl.2 h)
            by_cases hfl : f.length > off + d.length
            · -- single block whose head was read: the whole block came from the file
              have hsm : ae = ab + A ∧ br > 0 := by
                by_cases hs : ae = ab + A ∧ br > 0
                · exact hs
                · exact absurd ⟨hfl, by omega, hs⟩ hnl
              have hv : (blit (buf2 A ab ae lrc f (buf1 A ab br f junk)) br d)[i - ab]? = if i < f.length then f[i]? else some 0 := by
                rw [hv0, g2, if_neg (fun h => hlr h.1), g1, if_pos ⟨hsm.2, by omega⟩]
                have : ab + (i - ab) = i := by omega
                rw [this]
              by_cases ht : max f.length (off + d.length) < ae
              · rw [if_pos ht, get_ftruncate, lf1, gf1]
                by_cases hif : i < f.length
                · rw [if_pos (by omega), if_pos (by omega), if_neg r1, if_pos r4, hv, if_pos hif]
                · rw [if_neg (by omega), List.getElem?_eq_none (by omega)]
              · rw [if_neg ht, gf1, if_neg r1, if_pos r4, hv, if_pos (by omega)]
            · -- nothing of the file follows the data: whatever is in the buffer is cut off
              have ht : max f.length (off + d.length) < ae := by omega
              rw [if_pos ht, get_ftruncate, if_neg (by omega), List.getElem?_eq_none (by omega)]
        · -- behind the last block: untouched
          by_cases ht : max f.length (off + d.length) < ae
          · rw [if_pos ht, get_ftruncate, if_neg (by omega), List.getElem?_eq_none (by omega)]
          · rw [if_neg ht, gf1, if_neg r1, if_neg r4]

theorem small_first_iff (A off cnt : Nat) (hA : 0 < A) :
    (off / A + 1 = (off + cnt + A - 1) / A) ↔ alignedEnd A off cnt = alignedBegin A off + A := by
  unfold alignedEnd alignedBegin
  constructor
  · intro h; rw [← h, Nat.add_mul, Nat.one_mul]
  · intro h
    have : (off + cnt + A - 1) / A * A = (off / A + 1) * A := by rw [Nat.add_mul, Nat.one_mul]; exact h
    exact (Nat.eq_of_mul_eq_mul_right hA this).symm

theorem lastReadCond_iff (A off cnt fs : Nat) (hA : 0 < A) :
    lastReadCond A off cnt fs = true ↔
      (fs > off + cnt ∧ off + cnt < alignedEnd A off cnt ∧ ¬ (alignedEnd A off cnt = alignedBegin A off + A ∧ off % A > 0)) := by
  have hc := aend_cases A off cnt hA
  have hr := Nat.mod_lt (off + cnt) hA
  have hb := aend_bounds A off cnt hA
  have hs := small_first_iff A off cnt hA
  have hle := Nat.mod_le (off + cnt) A
  unfold lastReadCond smallNote
  simp only [Bool.and_eq_true, Bool.not_eq_true', Bool.and_eq_false_iff, decide_eq_true_eq, decide_eq_false_iff_not, ne_eq, Decidable.not_not]
  constructor
  · intro ⟨⟨h1, h2⟩, h3⟩
    have he := hc.2 h2
    refine ⟨by omega, by omega, ?_⟩
    intro ⟨h4, h5⟩
    rcases h1 with (h1 | h1) | h1
    · exact h1 (hs.2 h4)
    · omega
    · omega
  · intro ⟨h1, h2, h3⟩
    have hpos : (off + cnt) % A > 0 := by
      by_cases h0 : (off + cnt) % A = 0
      · have := hc.1 h0; omega
      · omega
    have he := hc.2 hpos
    refine ⟨⟨?_, hpos⟩, by omega⟩
    by_cases h4 : off / A + 1 = (off + cnt + A - 1) / A
    · by_cases h5 : off % A = 0
      · exact Or.inl (Or.inr h5)
      · exact absurd ⟨hs.1 h4, by omega⟩ h3
    · exact Or.inl (Or.inl h4)

/-- **C16, writes through the alignment adaptor.** For every alignment, file content, offset and non-empty data (and whatever
    the freshly allocated bounce buffer contains), `AlignedFileAdaptor::pwrite` on the bounce-buffer path — read-modify-write of
    the first and of the last block, one aligned write, truncation back to the logical size — and on the direct path leaves
    exactly the file that the plain `pwrite` leaves, and reports the full count. -/
theorem C16_aligned_pwrite (A : Nat) (hA : 0 < A) (memOk : Bool) (f d junk : Bytes) (off : Nat) (hd : 0 < d.length)
    (hj : junk.length = alignedEnd A off d.length - alignedBegin A off) :
    (alignedPwrite A memOk f off d junk).1 = some d.length ∧ (alignedPwrite A memOk f off d junk).2.1 = pwrite f off d := by
  unfold alignedPwrite
  have hne : ¬ d.length = 0 := by omega
  simp only [hne, if_false]
  by_cases hal : (isAligned A off d.length && memOk) = true
  · simp only [hal, if_true, and_self]
  · simp only [hal, Bool.false_eq_true, if_false]
    refine ⟨trivial, ?_⟩
    have hb := aend_bounds A off d.length hA
    have hab := abegin_facts A off hA
    have hdv : A ∣ alignedEnd A off d.length - alignedBegin A off := Nat.dvd_sub (aend_dvd A off d.length) hab.2.2
    have hlt : alignedBegin A off < alignedEnd A off d.length := by omega
    obtain ⟨k, hk⟩ := hdv
    have hk1 : k ≥ 1 := by
      cases k with
      | zero => simp at hk; omega
      | succ k => omega
    have hm : alignedEnd A off d.length = alignedBegin A off + A ∨ alignedBegin A off + 2 * A ≤ alignedEnd A off d.length := by
      by_cases h1 : k = 1
      · left; subst h1; simp at hk; omega
      · right
        have : 2 ≤ k := by omega
        have := Nat.mul_le_mul_left A this
        omega
    have hbe : alignedBegin A off + A ≤ alignedEnd A off d.length := by
      rcases hm with h | h <;> omega
    exact pwCore_spec A (alignedBegin A off) (alignedEnd A off d.length) (off % A) (lastReadCond A off d.length f.length) f off d junk
      hA hd hab.1 hab.2.1 hbe hb.1 hb.2 hj hm (lastReadCond_iff A off d.length f.length hA)

open Photon.RangeSplit in
theorem pwrite_nil (g : Bytes) (x : Nat) (h : x ≤ g.length) : pwrite g x [] = g := by
  apply List.ext_getElem?
  intro i
  rw [get_pwrite]
  by_cases h1 : i < x
  · rw [if_pos h1, if_pos (by omega)]
  · rw [if_neg h1, if_neg (by simp; omega)]

theorem pwrite_adjacent (g c1 c2 : Bytes) (x : Nat) :
    pwrite (pwrite g x c1) (x + c1.length) c2 = pwrite g x (c1 ++ c2) := by
  apply List.ext_getElem?
  intro i
  have hl : (pwrite g x c1).length = max g.length (x + c1.length) := pwrite_length g c1 x
  have I : (pwrite g x c1)[i]? = if i < x then (if i < g.length then g[i]? else some 0) else if i < x + c1.length then c1[i - x]? else g[i]? := get_pwrite g c1 x i
  have L : (pwrite (pwrite g x c1) (x + c1.length) c2)[i]? =
      if i < x + c1.length then (if i < (pwrite g x c1).length then (pwrite g x c1)[i]? else some 0)
      else if i < x + c1.length + c2.length then c2[i - (x + c1.length)]? else (pwrite g x c1)[i]? := get_pwrite _ c2 _ i
  have R : (pwrite g x (c1 ++ c2))[i]? = if i < x then (if i < g.length then g[i]? else some 0)
      else if i < x + (c1 ++ c2).length then (c1 ++ c2)[i - x]? else g[i]? := get_pwrite g (c1 ++ c2) x i
  rw [L, R, I, hl, List.length_append]
  by_cases h1 : i < x
  · have a1 : i < x + c1.length := by omega
    have a2 : i < max g.length (x + c1.length) := by omega
    simp only [h1, a1, a2, if_true]
  · by_cases h2 : i < x + c1.length
    · have a2 : i < max g.length (x + c1.length) := by omega
      have a3 : i < x + (c1.length + c2.length) := by omega
      have a4 : (c1 ++ c2)[i - x]? = c1[i - x]? := List.getElem?_append_left (by omega)
      simp only [h1, h2, a2, a3, a4, if_true, if_false]
    · by_cases h3 : i < x + c1.length + c2.length
      · have a3 : i < x + (c1.length + c2.length) := by omega
        have a4 : (c1 ++ c2)[i - x]? = c2[i - x - c1.length]? := List.getElem?_append_right (by omega)
        have a5 : i - (x + c1.length) = i - x - c1.length := by omega
        simp only [h1, h2, h3, a3, a4, a5, if_true, if_false]
      · have a3 : ¬ i < x + (c1.length + c2.length) := by omega
        simp only [h1, h2, h3, a3, if_false]

theorem flatten_length_blocks (U : Nat) : ∀ (fs : List Bytes), (∀ b ∈ fs, b.length = U) → fs.flatten.length = fs.length * U
  | [], _ => by simp
  | b :: r, hU => by
    have hb : b.length = U := hU b (by simp)
    have := flatten_length_blocks U r (fun x hx => hU x (by simp [hx]))
    simp only [List.flatten_cons, List.length_append, List.length_cons, this, hb, Nat.add_mul]; omega

theorem pwrite_append_left (b g c : Bytes) (x : Nat) : pwrite (b ++ g) (b.length + x) c = b ++ pwrite g x c := by
  apply List.ext_getElem?
  intro k
  by_cases h1 : k < b.length
  · have R : (b ++ pwrite g x c)[k]? = b[k]? := List.getElem?_append_left h1
    have L : (pwrite (b ++ g) (b.length + x) c)[k]? = b[k]? := by
      rw [get_pwrite, List.length_append, if_pos (by omega), if_pos (by omega)]
      exact List.getElem?_append_left h1
    rw [L, R]
  · have hk : b.length ≤ k := by omega
    have R : (b ++ pwrite g x c)[k]? = (pwrite g x c)[k - b.length]? := List.getElem?_append_right hk
    have G : (b ++ g)[k]? = g[k - b.length]? := List.getElem?_append_right hk
    rw [R, get_pwrite, get_pwrite, List.length_append, G]
    by_cases h2 : k - b.length < x
    · have a1 : k < b.length + x := by omega
      rw [if_pos a1, if_pos h2]
      by_cases h3 : k - b.length < g.length
      · have a2 : k < b.length + g.length := by omega
        rw [if_pos a2, if_pos h3]
      · have a2 : ¬ k < b.length + g.length := by omega
        rw [if_neg a2, if_neg h3]
    · have a1 : ¬ k < b.length + x := by omega
      rw [if_neg a1, if_neg h2]
      by_cases h3 : k - b.length < x + c.length
      · have a2 : k < b.length + x + c.length := by omega
        rw [if_pos a2, if_pos h3]
        congr 1; omega
      · have a2 : ¬ k < b.length + x + c.length := by omega
        rw [if_neg a2, if_neg h3]

theorem pwrite_append_inside (b g c : Bytes) (o : Nat) (h : o + c.length ≤ b.length) : pwrite (b ++ g) o c = pwrite b o c ++ g := by
  apply List.ext_getElem?
  intro k
  have hl : (pwrite b o c).length = b.length := by rw [pwrite_length]; omega
  by_cases h1 : k < b.length
  · have R : (pwrite b o c ++ g)[k]? = (pwrite b o c)[k]? := List.getElem?_append_left (by rw [hl]; exact h1)
    have G : (b ++ g)[k]? = b[k]? := List.getElem?_append_left h1
    rw [R, get_pwrite, get_pwrite, List.length_append, G]
    by_cases h2 : k < o
    · rw [if_pos h2, if_pos h2, if_pos (by omega), if_pos h1]
    · rw [if_neg h2, if_neg h2]
  · have hk : (pwrite b o c).length ≤ k := by rw [hl]; omega
    have R : (pwrite b o c ++ g)[k]? = g[k - b.length]? := by rw [List.getElem?_append_right hk, hl]
    have G : (b ++ g)[k]? = g[k - b.length]? := List.getElem?_append_right (by omega)
    rw [R, get_pwrite, if_neg (by omega), if_neg (by omega), G]

/-- writing inside block `i` of equal-size blocks = writing into the concatenation -/
theorem flatten_set_block (U : Nat) : ∀ (fs : List Bytes) (i o : Nat) (c : Bytes), (∀ b ∈ fs, b.length = U) → i < fs.length →
    o + c.length ≤ U →
    (fs.set i (pwrite (fs.getD i []) o c)).flatten = pwrite fs.flatten (i * U + o) c ∧
    (∀ b ∈ fs.set i (pwrite (fs.getD i []) o c), b.length = U)
  | [], i, o, c, _, hi, _ => by exact absurd hi (by simp)
  | b :: fs, 0, o, c, hU, _, hoc => by
    have hb : b.length = U := hU b (by simp)
    constructor
    · simp only [List.set_cons_zero, List.flatten_cons, List.getD_cons_zero, Nat.zero_mul, Nat.zero_add]
      exact (pwrite_append_inside b fs.flatten c o (by omega)).symm
    · intro x hx
      simp only [List.set_cons_zero, List.mem_cons, List.getD_cons_zero] at hx
      rcases hx with hx | hx
      · subst hx; rw [pwrite_length]; omega
      · exact hU x (by simp [hx])
  | b :: fs, i + 1, o, c, hU, hi, hoc => by
    have hb : b.length = U := hU b (by simp)
    have hi' : i < fs.length := by simp at hi; omega
    have ih := flatten_set_block U fs i o c (fun x hx => hU x (by simp [hx])) hi' hoc
    constructor
    · simp only [List.set_cons_succ, List.flatten_cons, List.getD_cons_succ]
      rw [ih.1]
      have e : (i + 1) * U + o = b.length + (i * U + o) := by rw [Nat.add_mul, hb]; omega
      rw [e, pwrite_append_left]
    · intro x hx
      simp only [List.set_cons_succ, List.mem_cons, List.getD_cons_succ] at hx
      rcases hx with hx | hx
      · subst hx; exact hb
      · exact ih.2 x hx

open Photon.RangeSplit in
/-- writing the parts of a tiling one after the other = one write of the whole data into the concatenation -/
theorem writeParts_tiles (U : Nat) : ∀ (ps : List Sub) (fs : List Bytes) (d : Bytes) (x y : Nat),
    Tiles U x ps y → y ≤ fs.length * U → d.length = y - x → (∀ b ∈ fs, b.length = U) →
    (writeParts (fun j => (j, 0)) ps fs d).flatten = pwrite fs.flatten x d ∧
    (∀ b ∈ writeParts (fun j => (j, 0)) ps fs d, b.length = U) ∧ (writeParts (fun j => (j, 0)) ps fs d).length = fs.length
  | [], fs, d, x, y, h, hy, hd, hU => by
    simp only [Tiles] at h; subst h
    have : d = [] := by cases d with | nil => rfl | cons a t => simp at hd
    subst this
    simp only [writeParts]
    exact ⟨(pwrite_nil _ _ (by rw [flatten_length_blocks U fs hU]; exact hy)).symm, hU, trivial⟩
  | p :: r, fs, d, x, y, h, hy, hd, hU => by
    simp only [Tiles] at h
    obtain ⟨h1, h2, h3, h4⟩ := h
    have hle := Tiles_le U r _ y h4
    simp only [Sub.lo, Sub.hi] at h1 hle h4
    have hi : p.i < fs.length := by
      by_cases hc : p.i < fs.length
      · exact hc
      · exfalso
        have : fs.length * U ≤ p.i * U := Nat.mul_le_mul_right U (by omega)
        omega
    have hc1 : (d.take p.len).length = p.len := by simp; omega
    have hs := flatten_set_block U fs p.i p.off (d.take p.len) hU hi (by omega)
    simp only [writeParts, Nat.zero_add]
    have hlen' : (fs.set p.i (pwrite (fs.getD p.i []) p.off (d.take p.len))).length = fs.length := by simp
    have ih := writeParts_tiles U r (fs.set p.i (pwrite (fs.getD p.i []) p.off (d.take p.len))) (d.drop p.len)
      (p.i * U + p.off + p.len) y h4 (by rw [hlen']; exact hy) (by simp; omega) hs.2
    refine ⟨?_, ih.2.1, by rw [ih.2.2, hlen']⟩
    rw [ih.1, hs.1, h1]
    have := pwrite_adjacent fs.flatten (d.take p.len) (d.drop p.len) x
    rw [hc1, List.take_append_drop] at this
    rw [← h1] at this ⊢
    exact this

/-- **C16, fixed-size linear composite: a write equals the write into the concatenation**, clipped at the composite's size; the
    sub-files keep their size. -/
theorem C16_linear_pwrite (U : Nat) (fs : List Bytes) (hU : ∀ b ∈ fs, b.length = U) (off : Nat) (d : Bytes)
    (hoff : off < fs.length * U) (hw : Photon.RangeSplit.NoWrap U off (min d.length (fs.length * U - off)))
    (hd : 0 < d.length) :
    (linearPwrite U fs off d).1 = some (min d.length (fs.length * U - off)) ∧
    (linearPwrite U fs off d).2.1.flatten = pwrite (linearFlat fs) off (d.take (min d.length (fs.length * U - off))) ∧
    (∀ b ∈ (linearPwrite U fs off d).2.1, b.length = U) := by
  unfold linearPwrite linearFlat
  simp only [show ¬ off ≥ fs.length * U from by omega, if_false]
  have hc : (if off + d.length > fs.length * U then fs.length * U - off else d.length) = min d.length (fs.length * U - off) := by
    split <;> omega
  rw [hc]
  have hl : 0 < min d.length (fs.length * U - off) := by omega
  obtain ⟨_, ht, _⟩ := Photon.RangeSplit.C15_tiling U off _ hw hl
  have := writeParts_tiles U _ fs (d.take (min d.length (fs.length * U - off))) off _ ht (by omega) (by simp <;> omega) hU
  simp only [parts]
  exact ⟨trivial, this.1, this.2.1⟩


theorem pread_pwrite_disjoint (g c : Bytes) (a b l : Nat) (h : a + c.length ≤ b ∨ b + l ≤ a) (hg : a + c.length ≤ g.length) :
    pread (pwrite g a c) b l = pread g b l := by
  apply List.ext_getElem?
  intro i
  rw [get_pread, get_pread]
  by_cases h1 : i < l
  · rw [if_pos h1, if_pos h1, get_pwrite]
    rcases h with h | h
    · rw [if_neg (by omega), if_neg (by omega)]
    · rw [if_pos (by omega), if_pos (by omega)]
  · rw [if_neg h1, if_neg h1]

theorem pread_pwrite_inside (g c : Bytes) (a o S : Nat) (ho : o + c.length ≤ S) (hg : a + S ≤ g.length) :
    pread (pwrite g (a + o) c) a S = pwrite (pread g a S) o c := by
  apply List.ext_getElem?
  intro i
  have hl : (pread g a S).length = S := by rw [pread_length]; omega
  have R : (pwrite (pread g a S) o c)[i]? = if i < o then (if i < (pread g a S).length then (pread g a S)[i]? else some 0)
      else if i < o + c.length then c[i - o]? else (pread g a S)[i]? := get_pwrite _ c o i
  have P : (pread g a S)[i]? = if i < S then g[a + i]? else none := get_pread g a S i
  have L : (pread (pwrite g (a + o) c) a S)[i]? = if i < S then (pwrite g (a + o) c)[a + i]? else none := get_pread _ a S i
  have W : (pwrite g (a + o) c)[a + i]? = if a + i < a + o then (if a + i < g.length then g[a + i]? else some 0)
      else if a + i < a + o + c.length then c[a + i - (a + o)]? else g[a + i]? := get_pwrite g c (a + o) (a + i)
  rw [L, R, P, W, hl]
  by_cases h1 : i < S
  · by_cases h2 : i < o
    · have a1 : a + i < a + o := by omega
      have a2 : a + i < g.length := by omega
      simp only [h1, h2, a1, a2, if_true]
    · by_cases h3 : i < o + c.length
      · have a1 : ¬ a + i < a + o := by omega
        have a3 : a + i < a + o + c.length := by omega
        have a4 : a + i - (a + o) = i - o := by omega
        simp only [h1, h2, h3, a1, a3, a4, if_true, if_false]
      · have a1 : ¬ a + i < a + o := by omega
        have a3 : ¬ a + i < a + o + c.length := by omega
        simp only [h1, h2, h3, a1, a3, if_true, if_false]
  · have a1 : ¬ i < o := by omega
    have a3 : ¬ i < o + c.length := by omega
    simp only [h1, a1, a3, if_false]

theorem getD_set_self (l : List Bytes) (i : Nat) (v : Bytes) (h : i < l.length) : (l.set i v).getD i [] = v := by
  rw [List.getD_eq_getElem?_getD, List.getElem?_set_self h]; rfl

theorem getD_set_ne (l : List Bytes) (i k : Nat) (v : Bytes) (h : i ≠ k) : (l.set i v).getD k [] = l.getD k [] := by
  rw [List.getD_eq_getElem?_getD, List.getD_eq_getElem?_getD, List.getElem?_set_ne h]

theorem stripeBlocks_get (S rows : Nat) (fs : List Bytes) (k : Nat) :
    (stripeBlocks S fs rows)[k]? = if k < fs.length * rows then some (pread (fs.getD (k % fs.length) []) (k / fs.length * S) S) else none := by
  unfold stripeBlocks
  rw [List.getElem?_map]
  by_cases h : k < fs.length * rows
  · rw [List.getElem?_range h, if_pos h]; rfl
  · rw [if_neg h, List.getElem?_eq_none (by simp; omega)]; rfl

theorem stripeBlocks_length (S rows : Nat) (fs : List Bytes) : (stripeBlocks S fs rows).length = fs.length * rows := by
  simp [stripeBlocks]

/-- writing inside stripe `j` (file `j % n`, row `j / n`) changes exactly block `j` of the flat striped view -/
theorem stripeBlocks_set (S rows : Nat) (fs : List Bytes) (hU : ∀ b ∈ fs, b.length = rows * S)
    (j o : Nat) (c : Bytes) (hj : j < fs.length * rows) (ho : o + c.length ≤ S) :
    stripeBlocks S (fs.set (j % fs.length) (pwrite (fs.getD (j % fs.length) []) (j / fs.length * S + o) c)) rows =
      (stripeBlocks S fs rows).set j (pwrite ((stripeBlocks S fs rows).getD j []) o c) ∧
    (∀ b ∈ fs.set (j % fs.length) (pwrite (fs.getD (j % fs.length) []) (j / fs.length * S + o) c), b.length = rows * S) := by
  have hn : 0 < fs.length := by
    cases hf : fs.length with
    | zero => rw [hf] at hj; simp at hj
    | succ m => omega
  have hjm : j % fs.length < fs.length := Nat.mod_lt j hn
  have hg : (fs.getD (j % fs.length) []).length = rows * S := by
    rw [getD_eq fs _ hjm]; exact hU _ (List.getElem_mem hjm)
  have hrow : j / fs.length < rows := by
    apply (Nat.div_lt_iff_lt_mul hn).2; rw [Nat.mul_comm]; exact hj
  have hrowS : j / fs.length * S + S ≤ rows * S := by
    have : (j / fs.length + 1) * S ≤ rows * S := Nat.mul_le_mul_right S hrow
    rw [Nat.add_mul, Nat.one_mul] at this; exact this
  have hblockj : (stripeBlocks S fs rows).getD j [] = pread (fs.getD (j % fs.length) []) (j / fs.length * S) S := by
    rw [List.getD_eq_getElem?_getD, stripeBlocks_get, if_pos hj]; rfl
  constructor
  · apply List.ext_getElem?
    intro k
    rw [stripeBlocks_get, List.length_set]
    by_cases hk : k < fs.length * rows
    · rw [if_pos hk]
      by_cases hkj : k = j
      · subst hkj
        rw [List.getElem?_set_self (by rw [stripeBlocks_length]; exact hk), getD_set_self _ _ _ hjm, hblockj]
        congr 1
        exact pread_pwrite_inside _ c (k / fs.length * S) o S ho (by rw [hg]; exact hrowS)
      · rw [List.getElem?_set_ne (fun h => hkj h.symm), stripeBlocks_get, if_pos hk]
        congr 1
        by_cases hm : k % fs.length = j % fs.length
        · -- same file, another row: the written region does not touch this stripe
          rw [hm, getD_set_self _ _ _ hjm]
          have hdiv : k / fs.length ≠ j / fs.length := by
            intro hd
            have h1 := Nat.div_add_mod k fs.length
            have h2 := Nat.div_add_mod j fs.length
            rw [hd, hm] at h1; omega
          apply pread_pwrite_disjoint
          · rcases Nat.lt_or_gt_of_ne hdiv with h | h
            · right
              have : (k / fs.length + 1) * S ≤ j / fs.length * S := Nat.mul_le_mul_right S h
              rw [Nat.add_mul, Nat.one_mul] at this; omega
            · left
              have : (j / fs.length + 1) * S ≤ k / fs.length * S := Nat.mul_le_mul_right S h
              rw [Nat.add_mul, Nat.one_mul] at this; omega
          · rw [hg]; omega
        · rw [getD_set_ne _ _ _ _ (fun h => hm h.symm)]
    · rw [if_neg hk, List.getElem?_eq_none (by rw [List.length_set, stripeBlocks_length]; omega)]
  · intro b hb
    rcases List.mem_or_eq_of_mem_set hb with h | h
    · exact hU b h
    · subst h; rw [pwrite_length, hg]; omega

theorem stripeBlocks_len (S rows : Nat) (fs : List Bytes) (hn : 0 < fs.length) (hU : ∀ b ∈ fs, b.length = rows * S) :
    ∀ b ∈ stripeBlocks S fs rows, b.length = S := by
  intro b hb
  simp only [stripeBlocks, List.mem_map, List.mem_range] at hb
  obtain ⟨j, hj, rfl⟩ := hb
  have hlt : j % fs.length < fs.length := Nat.mod_lt _ hn
  have hfile : (fs.getD (j % fs.length) []).length = rows * S := by
    rw [getD_eq _ _ hlt]; exact hU _ (List.getElem_mem hlt)
  have hrow : j / fs.length < rows := by
    apply (Nat.div_lt_iff_lt_mul hn).mpr; rw [Nat.mul_comm]; exact hj
  rw [pread_length, hfile]
  have : (j / fs.length + 1) * S ≤ rows * S := Nat.mul_le_mul_right S hrow
  rw [Nat.add_mul] at this
  omega

open Photon.RangeSplit in
/-- writing the parts of a tiling into the stripes one after the other = one write into the flat striped view -/
theorem writeParts_stripe (S rows n : Nat) (hn : 0 < n) : ∀ (ps : List Sub) (fs : List Bytes) (d : Bytes) (x y : Nat),
    Tiles S x ps y → y ≤ n * rows * S → d.length = y - x → (∀ b ∈ fs, b.length = rows * S) → fs.length = n →
    (stripeBlocks S (writeParts (fun j => (j % n, j / n * S)) ps fs d) rows).flatten = pwrite (stripeBlocks S fs rows).flatten x d ∧
    (∀ b ∈ writeParts (fun j => (j % n, j / n * S)) ps fs d, b.length = rows * S) ∧
    (writeParts (fun j => (j % n, j / n * S)) ps fs d).length = n
  | [], fs, d, x, y, h, hy, hd, hU, hl => by
    simp only [Tiles] at h; subst h
    have : d = [] := by cases d with | nil => rfl | cons a t => simp at hd
    subst this
    simp only [writeParts]
    have hfl := flatten_length_blocks S (stripeBlocks S fs rows) (stripeBlocks_len S rows fs (by omega) hU)
    rw [stripeBlocks_length, hl] at hfl
    exact ⟨(pwrite_nil _ _ (by rw [hfl]; exact hy)).symm, hU, hl⟩
  | p :: r, fs, d, x, y, h, hy, hd, hU, hl => by
    simp only [Tiles] at h
    obtain ⟨h1, h2, h3, h4⟩ := h
    have hle := Tiles_le S r _ y h4
    simp only [Sub.lo, Sub.hi] at h1 hle h4
    have hi : p.i < n * rows := by
      by_cases hc : p.i < n * rows
      · exact hc
      · exfalso
        have : n * rows * S ≤ p.i * S := Nat.mul_le_mul_right S (by omega)
        omega
    have hc1 : (d.take p.len).length = p.len := by simp; omega
    have hbl := stripeBlocks_len S rows fs (by omega) hU
    have hset := stripeBlocks_set S rows fs hU p.i p.off (d.take p.len) (by rw [hl]; exact hi) (by omega)
    rw [hl] at hset
    have hs := flatten_set_block S (stripeBlocks S fs rows) p.i p.off (d.take p.len) hbl (by rw [stripeBlocks_length, hl]; exact hi) (by omega)
    simp only [writeParts]
    have hlen' : (fs.set (p.i % n) (pwrite (fs.getD (p.i % n) []) (p.i / n * S + p.off) (d.take p.len))).length = n := by simp [hl]
    have ih := writeParts_stripe S rows n hn r (fs.set (p.i % n) (pwrite (fs.getD (p.i % n) []) (p.i / n * S + p.off) (d.take p.len)))
      (d.drop p.len) (p.i * S + p.off + p.len) y h4 hy (by simp; omega) hset.2 hlen'
    refine ⟨?_, ih.2.1, ih.2.2⟩
    rw [ih.1, hset.1, hs.1, h1]
    have := pwrite_adjacent (stripeBlocks S fs rows).flatten (d.take p.len) (d.drop p.len) x
    rw [hc1, List.take_append_drop] at this
    rw [← h1] at this ⊢
    exact this

/-- **C16, stripe composite: a write equals the write into the flat striped view**, clipped at the composite's size; the
    sub-files keep their size. -/
theorem C16_stripe_pwrite (S rows : Nat) (fs : List Bytes) (hn : 0 < fs.length) (hU : ∀ b ∈ fs, b.length = rows * S)
    (off : Nat) (d : Bytes) (hoff : off < fs.length * rows * S)
    (hw : Photon.RangeSplit.NoWrap S off (min d.length (fs.length * rows * S - off))) (hd : 0 < d.length) :
    (stripePwrite S fs rows off d).1 = some (min d.length (fs.length * rows * S - off)) ∧
    stripeFlat S (stripePwrite S fs rows off d).2.1 rows =
      pwrite (stripeFlat S fs rows) off (d.take (min d.length (fs.length * rows * S - off))) ∧
    (∀ b ∈ (stripePwrite S fs rows off d).2.1, b.length = rows * S) := by
  unfold stripePwrite
  simp only [show ¬ off ≥ fs.length * rows * S from by omega, if_false]
  have hc : (if off + d.length > fs.length * rows * S then fs.length * rows * S - off else d.length)
      = min d.length (fs.length * rows * S - off) := by split <;> omega
  rw [hc, stripeFlat_eq, stripeFlat_eq]
  have hl : 0 < min d.length (fs.length * rows * S - off) := by omega
  obtain ⟨_, ht, _⟩ := Photon.RangeSplit.C15_tiling S off _ hw hl
  have := writeParts_stripe S rows fs.length hn _ fs (d.take (min d.length (fs.length * rows * S - off))) off _ ht (by omega)
    (by simp <;> omega) hU rfl
  simp only [parts]
  exact ⟨trivial, this.1, this.2.1⟩


end Photon.File
