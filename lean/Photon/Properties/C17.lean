import Photon.Model.RangeModule
/-!
# C17 — cache layer (part 1: the filled-range map)

`RangeModule` is what the full-file cache store uses (in its in-memory mode) to remember which byte ranges of a
cached file are present in the media file. These theorems say it behaves as a set of byte positions.
-/
namespace Photon.RangeModule

theorem covered_cons (iv : Iv) (m : RM) (x : Nat) : covered (iv :: m) x = (decide (iv.1 ≤ x ∧ x < iv.2) || covered m x) := by
  simp [covered]

theorem covered_append (m1 m2 : RM) (x : Nat) : covered (m1 ++ m2) x = (covered m1 x || covered m2 x) := by
  simp [covered]

def NonEmpty (m : RM) : Prop := ∀ iv ∈ m, iv.1 < iv.2

theorem bool_eq_of_iff {a b : Bool} (h : a = true ↔ b = true) : a = b := by
  cases a <;> cases b <;> simp_all

theorem union_iff (a b l r x : Nat) (hab : a < b) (hlr : l < r) (h2 : ¬ b < l) (h3 : ¬ r < a) :
    (min l a ≤ x ∧ x < max r b) ↔ (a ≤ x ∧ x < b) ∨ (l ≤ x ∧ x < r) := by
  simp only [Nat.min_def, Nat.max_def]
  split <;> split <;> omega

/-- **addRange is set union with `[l, r)`** -/
theorem C17_addRange_covered (m : RM) : ∀ (l r x : Nat), NonEmpty m →
    covered (addRange m l r) x = (covered m x || decide (l ≤ x ∧ x < r)) := by
  induction m with
  | nil =>
    intro l r x _
    simp only [addRange]
    split
    · simp [covered]
    · next h => simp [covered]; omega
  | cons iv rest ih =>
    intro l r x hne
    obtain ⟨a, b⟩ := iv
    have hab : a < b := hne (a, b) (by simp)
    have hrest : NonEmpty rest := fun iv hiv => hne iv (by simp [hiv])
    simp only [addRange]
    split
    · next h => apply bool_eq_of_iff; simp [covered]; omega
    · next h1 =>
      split
      · next h2 =>
        rw [covered_cons, ih l r x hrest, covered_cons]
        simp [Bool.or_assoc]
      · next h2 =>
        split
        · next h3 =>
          simp only [covered_cons]
          cases decide (a ≤ x ∧ x < b) <;> cases covered rest x <;> cases decide (l ≤ x ∧ x < r) <;> simp
        · next h3 =>
          rw [ih (min l a) (max r b) x hrest, covered_cons]
          have hu := union_iff a b l r x hab (by omega) h2 h3
          cases hcv : covered rest x
          · apply bool_eq_of_iff
            simp only [Bool.or_eq_true, Bool.or_false, Bool.false_or, decide_eq_true_eq]
            constructor
            · intro hh; rcases hu.mp hh with h' | h'
              · exact Or.inl h'
              · exact Or.inr h'
            · intro hh; rcases hh with h' | h'
              · exact hu.mpr (Or.inl h')
              · exact hu.mpr (Or.inr h')
          · simp

/-- **removeRange is set difference with `[l, r)`** -/
theorem C17_removeRange_covered (m : RM) : ∀ (l r x : Nat), NonEmpty m →
    covered (removeRange m l r) x = (covered m x && !decide (l ≤ x ∧ x < r)) := by
  induction m with
  | nil => intro l r x _; simp [removeRange, covered]
  | cons iv rest ih =>
    intro l r x hne
    obtain ⟨a, b⟩ := iv
    have hab : a < b := hne (a, b) (by simp)
    have hrest : NonEmpty rest := fun iv hiv => hne iv (by simp [hiv])
    have ihx := ih l r x hrest
    simp only [removeRange]
    split
    · next h =>
      have : decide (l ≤ x ∧ x < r) = false := by simp; omega
      rw [this]; simp
    · next h1 =>
      split
      · next h2 =>
        rw [covered_cons, ihx, covered_cons]
        cases hcv : covered rest x <;> apply bool_eq_of_iff <;>
          simp only [Bool.or_eq_true, Bool.and_eq_true, decide_eq_true_eq, Bool.not_eq_true', decide_eq_false_iff_not,
            Bool.or_false, Bool.or_true, Bool.false_and, Bool.true_and, Bool.false_eq_true, false_and, or_false, true_and] <;> omega
      · next h2 =>
        split
        · next h3 =>
          rw [covered_cons, ihx, covered_cons]
          cases hcv : covered rest x <;> apply bool_eq_of_iff <;>
            simp only [Bool.or_eq_true, Bool.and_eq_true, decide_eq_true_eq, Bool.not_eq_true', decide_eq_false_iff_not,
              Bool.or_false, Bool.or_true, Bool.false_and, Bool.true_and, Bool.false_eq_true, false_and, or_false, true_and] <;> omega
        · next h3 =>
          rw [covered_append, covered_append, ihx, covered_cons]
          have e1 : covered (if a < l then [(a, l)] else []) x = decide (a < l ∧ a ≤ x ∧ x < l) := by
            split <;> simp [covered] <;> omega
          have e2 : covered (if r < b then [(r, b)] else []) x = decide (r < b ∧ r ≤ x ∧ x < b) := by
            split <;> simp [covered] <;> omega
          rw [e1, e2]
          cases hcv : covered rest x <;> apply bool_eq_of_iff <;>
            simp only [Bool.or_eq_true, Bool.and_eq_true, decide_eq_true_eq, Bool.not_eq_true', decide_eq_false_iff_not,
              Bool.or_false, Bool.or_true, Bool.false_and, Bool.true_and, Bool.false_eq_true, false_and, or_false, true_and] <;> omega

theorem addRange_nonEmpty (m : RM) : ∀ (l r : Nat), NonEmpty m → NonEmpty (addRange m l r) := by
  induction m with
  | nil => intro l r _; simp only [addRange]; split <;> intro iv hiv <;> simp at hiv; subst hiv; assumption
  | cons iv rest ih =>
    intro l r hne
    obtain ⟨a, b⟩ := iv
    have hab : a < b := hne (a, b) (by simp)
    have hrest : NonEmpty rest := fun iv hiv => hne iv (by simp [hiv])
    simp only [addRange]
    split
    · exact hne
    · next h1 =>
      split
      · intro iv hiv; simp only [List.mem_cons] at hiv
        rcases hiv with h | h
        · subst h; exact hab
        · exact ih l r hrest iv h
      · split
        · intro iv hiv; simp only [List.mem_cons] at hiv
          rcases hiv with h | h | h
          · subst h; simp only []; omega
          · subst h; exact hab
          · exact hrest iv h
        · exact ih _ _ hrest

theorem removeRange_nonEmpty (m : RM) : ∀ (l r : Nat), NonEmpty m → NonEmpty (removeRange m l r) := by
  induction m with
  | nil => intro l r _; simp [removeRange, NonEmpty]
  | cons iv rest ih =>
    intro l r hne
    obtain ⟨a, b⟩ := iv
    have hab : a < b := hne (a, b) (by simp)
    have hrest : NonEmpty rest := fun iv hiv => hne iv (by simp [hiv])
    simp only [removeRange]
    split
    · exact hne
    · split
      · intro iv hiv; simp only [List.mem_cons] at hiv
        rcases hiv with h | h
        · subst h; exact hab
        · exact ih l r hrest iv h
      · split
        · intro iv hiv; simp only [List.mem_cons] at hiv
          rcases hiv with h | h
          · subst h; exact hab
          · exact ih l r hrest iv h
        · intro iv hiv
          simp only [List.mem_append] at hiv
          rcases hiv with (h | h) | h
          · split at h <;> simp at h; subst h; assumption
          · split at h <;> simp at h; subst h; assumption
          · exact ih l r hrest iv h

theorem findContaining_spec (m : RM) (pos : Nat) (iv : Iv) (h : findContaining m pos = some iv) :
    iv ∈ m ∧ iv.1 ≤ pos ∧ pos < iv.2 := by
  unfold findContaining at h
  have h1 := List.find?_some h
  have h2 := List.mem_of_find?_eq_some h
  simp only [decide_eq_true_eq] at h1
  exact ⟨h2, h1.1, h1.2⟩

theorem covered_of_mem (m : RM) (iv : Iv) (x : Nat) (hm : iv ∈ m) (h1 : iv.1 ≤ x) (h2 : x < iv.2) : covered m x = true := by
  simp only [covered, List.any_eq_true, decide_eq_true_eq]
  exact ⟨iv, hm, h1, h2⟩

/-- **queryRefillRange is sound.** If it answers `(0,0)` for a non-empty request, every byte of `[left, right)` is
    covered (the read can be served from the media file); otherwise it answers a region inside the request such that
    every requested byte outside that region is covered (refilling the region makes the whole request covered). -/
theorem C17_queryRefillRange_sound (m : RM) (left right : Nat) (hlr : left < right) :
    let q := queryRefillRange m left right
    (q = (0, 0) → ∀ x, left ≤ x → x < right → covered m x = true) ∧
    (q ≠ (0, 0) → left ≤ q.1 ∧ q.1 < q.2 ∧ q.2 ≤ right ∧
       (∀ x, left ≤ x → x < q.1 → covered m x = true) ∧ (∀ x, q.2 ≤ x → x < right → covered m x = true)) := by
  intro q
  have hq : q = queryRefillRange m left right := rfl
  unfold queryRefillRange at hq
  rw [if_neg (by omega)] at hq
  -- the left edge
  cases hl : findContaining m left with
  | none =>
    rw [hl] at hq
    simp only at hq
    rw [if_neg (by omega)] at hq
    cases hr : findContaining m (right - 1) with
    | none =>
      rw [hr] at hq; simp only at hq
      rw [hq]
      refine ⟨by intro h; simp at h; omega, fun _ => ⟨Nat.le_refl _, hlr, Nat.le_refl _, by intro x h1 h2; omega, by intro x h1 h2; omega⟩⟩
    | some iv =>
      obtain ⟨hm, h1, h2⟩ := findContaining_spec m _ iv hr
      rw [hr] at hq; simp only at hq
      by_cases c : iv.1 > left
      · rw [if_pos c] at hq; rw [hq]
        refine ⟨by intro h; simp at h; omega, fun _ => ⟨Nat.le_refl _, c, by omega, by intro x a b; omega, ?_⟩⟩
        intro x a b; exact covered_of_mem m iv x hm a (by omega)
      · rw [if_neg c] at hq; rw [hq]
        refine ⟨by intro h; simp at h; omega, fun _ => ⟨Nat.le_refl _, hlr, Nat.le_refl _, by intro x a b; omega, by intro x a b; omega⟩⟩
  | some ivl =>
    obtain ⟨hml, hl1, hl2⟩ := findContaining_spec m _ ivl hl
    rw [hl] at hq
    simp only at hq
    by_cases cfull : ivl.2 ≥ right
    · rw [if_pos cfull] at hq; rw [hq]
      refine ⟨fun _ x a b => covered_of_mem m ivl x hml (by omega) (by omega), by intro h; exact absurd rfl h⟩
    · rw [if_neg cfull] at hq
      cases hr : findContaining m (right - 1) with
      | none =>
        rw [hr] at hq; simp only at hq; rw [hq]
        refine ⟨by intro h; simp at h; omega, fun _ => ⟨by simp only []; omega, by simp only []; omega, Nat.le_refl _, ?_, by intro x a b; omega⟩⟩
        intro x a b; exact covered_of_mem m ivl x hml (by omega) b
      | some iv =>
        obtain ⟨hm, h1, h2⟩ := findContaining_spec m _ iv hr
        rw [hr] at hq; simp only at hq
        by_cases c : iv.1 > ivl.2
        · rw [if_pos c] at hq; rw [hq]
          refine ⟨by intro h; simp at h; omega, fun _ => ⟨by simp only []; omega, c, by simp only []; omega, ?_, ?_⟩⟩
          · intro x a b; exact covered_of_mem m ivl x hml (by omega) b
          · intro x a b; exact covered_of_mem m iv x hm a (by omega)
        · rw [if_neg c] at hq; rw [hq]
          refine ⟨by intro h; simp at h; omega, fun _ => ⟨by simp only []; omega, by simp only []; omega, Nat.le_refl _, ?_, by intro x a b; omega⟩⟩
          intro x a b; exact covered_of_mem m ivl x hml (by omega) b

end Photon.RangeModule

/-!
# C17 (part 2) — cached reads return exactly the source's bytes

Abstract store: a filled-range map over a media file. Whatever region the store decides to refill (as long as it
contains what `queryRefillRange` asks for) and whenever whole-file or range evictions happen between reads, every
read returns exactly the source's bytes, clipped at the source size.
-/
namespace Photon.CacheStore
open Photon.RangeModule

theorem refill_coherent (s : Store) (l r : Nat) (hc : Coherent s) (hne : NonEmpty s.filled) :
    Coherent (refill s l r) ∧ NonEmpty (refill s l r).filled := by
  refine ⟨?_, addRange_nonEmpty _ _ _ hne⟩
  intro x hx
  simp only [refill] at hx ⊢
  rw [C17_addRange_covered s.filled l r x hne] at hx
  by_cases c : l ≤ x ∧ x < r
  · rw [if_pos c]
  · rw [if_neg c]
    have : decide (l ≤ x ∧ x < r) = false := by simpa using c
    rw [this, Bool.or_false] at hx
    exact hc x hx

theorem evict_coherent (s : Store) (hc : Coherent s) (hne : NonEmpty s.filled) (l r : Nat) :
    Coherent (evictAll s) ∧ NonEmpty (evictAll s).filled ∧ Coherent (evictRange s l r) ∧ NonEmpty (evictRange s l r).filled := by
  refine ⟨by intro x hx; simp [evictAll, covered] at hx, by intro iv h; simp [evictAll] at h, ?_, removeRange_nonEmpty _ _ _ hne⟩
  intro x hx
  simp only [evictRange] at hx ⊢
  rw [C17_removeRange_covered s.filled l r x hne] at hx
  simp only [Bool.and_eq_true] at hx
  exact hc x hx.1

/-- **C17, a cached read returns exactly the source's bytes and count.** For every coherent store, every offset and
    length, every refill policy `widen` that covers the requested region: the data is the source's bytes
    `[off, off + clip)`, never more than the source holds, and the store stays coherent. -/
theorem C17_read_returns_source (s : Store) (widen : Nat × Nat → Nat × Nat) (off len : Nat)
    (hc : Coherent s) (hne : NonEmpty s.filled)
    (hw : ∀ q, (widen q).1 ≤ q.1 ∧ q.2 ≤ (widen q).2) :
    (read s widen off len).2 = (List.range (clip s off len)).map (fun i => s.src (off + i)) ∧
    (read s widen off len).2.length = clip s off len ∧ off + clip s off len ≤ max off s.size ∧
    Coherent (read s widen off len).1 ∧ NonEmpty (read s widen off len).1.filled ∧ (read s widen off len).1.src = s.src := by
  have hclip : off + clip s off len ≤ max off s.size := by unfold clip; split <;> omega
  unfold read
  by_cases h0 : clip s off len = 0
  · rw [if_pos h0, h0]
    exact ⟨rfl, rfl, by omega, hc, hne, rfl⟩
  · rw [if_neg h0]
    have hpos : off < off + clip s off len := by omega
    obtain ⟨q1, q2⟩ := C17_queryRefillRange_sound s.filled off (off + clip s off len) hpos
    by_cases hq : queryRefillRange s.filled off (off + clip s off len) = (0, 0)
    · simp only []
      rw [if_pos hq]
      refine ⟨?_, by simp, hclip, hc, hne, rfl⟩
      apply List.map_congr_left
      intro i hi
      simp only [List.mem_range] at hi
      exact hc _ (q1 hq (off + i) (by omega) (by omega))
    · simp only []
      rw [if_neg hq]
      obtain ⟨b1, b2, b3, b4, b5⟩ := q2 hq
      obtain ⟨w1, w2⟩ := hw (queryRefillRange s.filled off (off + clip s off len))
      obtain ⟨rc, rn⟩ := refill_coherent s (widen (queryRefillRange s.filled off (off + clip s off len))).1
        (widen (queryRefillRange s.filled off (off + clip s off len))).2 hc hne
      refine ⟨?_, by simp, hclip, rc, rn, rfl⟩
      apply List.map_congr_left
      intro i hi
      simp only [List.mem_range] at hi
      simp only [refill]
      split
      · rfl
      · next hout =>
        -- outside the refilled region, hence outside what the query asked for, hence already filled
        apply hc
        by_cases c1 : off + i < (queryRefillRange s.filled off (off + clip s off len)).1
        · exact b4 _ (by omega) c1
        · exact b5 _ (by omega) (by omega)

theorem read_size (s : Store) (widen : Nat × Nat → Nat × Nat) (off len : Nat) : (read s widen off len).1.size = s.size := by
  unfold read
  dsimp only
  split
  · rfl
  · split <;> rfl

/-- the same along any history of reads and evictions -/
inductive Op where
  | read (off len : Nat) | evictAll | evictRange (l r : Nat)

def apply (widen : Nat × Nat → Nat × Nat) (s : Store) : Op → Store × List Nat
  | .read off len => read s widen off len
  | .evictAll => (evictAll s, [])
  | .evictRange l r => (evictRange s l r, [])

/-- **C17, every read in every history of reads and evictions returns the source's bytes.** -/
theorem C17_history (widen : Nat × Nat → Nat × Nat) (hw : ∀ q, (widen q).1 ≤ q.1 ∧ q.2 ≤ (widen q).2) :
    ∀ (ops : List Op) (s : Store), Coherent s → NonEmpty s.filled → ∀ (off len : Nat),
      (read (ops.foldl (fun s o => (apply widen s o).1) s) widen off len).2 =
        (List.range (clip s off len)).map (fun i => s.src (off + i)) := by
  intro ops
  induction ops with
  | nil => intro s hc hne off len; exact (C17_read_returns_source s widen off len hc hne hw).1
  | cons o os ih =>
    intro s hc hne off len
    simp only [List.foldl_cons]
    cases o with
    | read o l =>
      obtain ⟨_, _, _, c', n', hs⟩ := C17_read_returns_source s widen o l hc hne hw
      have := ih (read s widen o l).1 c' n' off len
      show (read (List.foldl (fun s o => (apply widen s o).1) (read s widen o l).1 os) widen off len).2 = _
      rw [this, hs]
      have hsz : (read s widen o l).1.size = s.size := read_size s widen o l
      simp only [clip, hsz]
    | evictAll =>
      obtain ⟨c', n', _, _⟩ := evict_coherent s hc hne 0 0
      exact ih (evictAll s) c' n' off len
    | evictRange l r =>
      obtain ⟨_, _, c', n'⟩ := evict_coherent s hc hne l r
      exact ih (evictRange s l r) c' n' off len

/-- non-vacuity: an empty store over a 10-byte source, refill unit 4 -/
def demo : Store := { size := 10, filled := [], media := fun _ => 0, src := fun x => x + 100 }
def widen4 (size : Nat) (q : Nat × Nat) : Nat × Nat := (q.1 / 4 * 4, min size ((q.2 + 3) / 4 * 4) |>.max q.2)
example : (read demo (widen4 10) 3 4).2 = [103, 104, 105, 106] ∧ (read demo (widen4 10) 8 5).2 = [108, 109] ∧
    (read demo (widen4 10) 12 5).2 = [] := by decide

end Photon.CacheStore

namespace Photon.CacheLog

/-- **C17 (runs of the real cached fs): a read that does not fail returns the source's count and bytes; it may fail
    only if a source read was made to fail while it was in flight.** -/
theorem C17_ret (s s' : St) (t : Nat) (r : Int) (ok : Bool) (h : step s (.retRead t r ok) = .ok s') :
    ∃ p, s.reads.find? (·.t == t) = some p ∧
      ((0 ≤ r ∧ r = (expected s.size p.off p.len : Int) ∧ ok = true) ∨ (r < 0 ∧ p.faulted = true)) := by
  unfold step at h
  split at h
  · exact absurd h (by simp)
  · next hp =>
    simp only [pre] at hp
    split at hp
    · exact absurd hp (by simp)
    · next p hf =>
      refine ⟨p, hf, ?_⟩
      by_cases c : r < 0
      · rw [if_pos c] at hp
        right
        refine ⟨c, ?_⟩
        cases hfa : p.faulted with
        | true => rfl
        | false => rw [hfa] at hp; simp at hp
      · rw [if_neg c] at hp
        left
        split at hp
        · exact absurd hp (by simp)
        · next h2 =>
          split at hp
          · exact absurd hp (by simp)
          · next h3 => exact ⟨by omega, by simpa using h2, by simpa using h3⟩

example : (run {} [.init 100, .callRead 1 90 20, .src 64 36 36 false, .retRead 1 10 true]).isOk = true := by decide
example : (run {} [.init 100, .callRead 1 90 20, .retRead 1 20 true]).isOk = false := by decide
example : (run {} [.init 100, .callRead 1 0 20, .retRead 1 (-1) false]).isOk = false := by decide

end Photon.CacheLog
