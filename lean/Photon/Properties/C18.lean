import Photon.Model.RangeLock
/-!
# C18 — RangeLock: held ranges never overlap, waiters proceed when the conflict is gone

Model: `Photon/Model/RangeLock.lean` (= `common/range-lock.h`).
-/
namespace Photon.RangeLock

theorem off_le_end (e : Elem) (h : e.off ≤ MAXU) : e.off ≤ e.end_ := by
  unfold Elem.end_ rend; omega

/-! ### `lower_bound` as a scan -/

theorem lowerBound_spec (l : List Elem) (off : Nat) :
    (lowerBound l off).1 ++ (lowerBound l off).2 = l ∧
    (∀ x ∈ (lowerBound l off).1, x.end_ ≤ off) ∧
    (∀ y r, (lowerBound l off).2 = y :: r → off < y.end_) := by
  induction l with
  | nil => simp [lowerBound]
  | cons e r ih =>
    unfold lowerBound
    by_cases h : e.end_ ≤ off
    · simp only [h, if_true]
      obtain ⟨h1, h2, h3⟩ := ih
      refine ⟨by simp [h1], ?_, h3⟩
      intro x hx; simp only [List.mem_cons] at hx
      rcases hx with rfl | hx
      · exact h
      · exact h2 x hx
    · simp only [h, if_false]
      refine ⟨by simp, by simp, ?_⟩
      intro y r' hy; simp at hy; rw [← hy.1]; omega

/-- **C18, partition lemma.** On a sorted index the predicate `e < r` (`e.end ≤ r.offset`) holds on
    a prefix and fails on the whole remaining suffix, so the scan computes `std::set::lower_bound`. -/
theorem C18_partition (l : List Elem) (off : Nat) (hs : Sorted l) (hu : U64 l) :
    ∀ y ∈ (lowerBound l off).2, off < y.end_ := by
  obtain ⟨h1, _, h3⟩ := lowerBound_spec l off
  intro y hy
  cases hb : (lowerBound l off).2 with
  | nil => rw [hb] at hy; simp at hy
  | cons z r =>
    have hz := h3 z r hb
    rw [hb] at hy
    simp only [List.mem_cons] at hy
    rcases hy with rfl | hy
    · exact hz
    · rw [← h1, hb] at hs
      have hs2 := (List.pairwise_append.mp hs).2.1
      have := (List.pairwise_cons.mp hs2).1 y hy
      have hyu : y.off ≤ MAXU := hu y (by rw [← h1, hb]; simp [hy])
      have := off_le_end y hyu
      omega

/-! ### the invariant -/

structure Inv (s : State) : Prop where
  sorted : Sorted s.index
  u64 : U64 s.index
  fresh : ∀ e ∈ s.index, e.id < s.nextId
  nodup : (s.index.map (·.id)).Nodup
  parked_held : ∀ p ∈ s.parked, ∃ e ∈ s.index, e.id = p.2

theorem inv_init : Inv {} := by
  constructor <;> simp [Sorted, U64]

theorem pairwise_or {α} (R : α → α → Prop) : ∀ (l : List α), l.Pairwise R →
    ∀ a ∈ l, ∀ b ∈ l, a ≠ b → R a b ∨ R b a := by
  intro l; induction l with
  | nil => intro _ a ha; simp at ha
  | cons x r ih =>
    intro hp a ha b hb hne
    obtain ⟨hx, hr⟩ := List.pairwise_cons.mp hp
    simp only [List.mem_cons] at ha hb
    rcases ha with rfl | ha <;> rcases hb with rfl | hb
    · exact absurd rfl hne
    · exact Or.inl (hx b hb)
    · exact Or.inr (hx a ha)
    · exact ih hr a ha b hb hne

/-- **C18, disjointness.** In a state satisfying the invariant two different held elements hold no
    common byte. -/
theorem C18_disjoint (s : State) (h : Inv s) (a b : Elem) (ha : a ∈ s.index) (hb : b ∈ s.index)
    (hne : a.id ≠ b.id) (x : Nat) : ¬ (a.holds x ∧ b.holds x) := by
  intro ⟨h1, h2⟩
  have : a ≠ b := fun e => hne (by rw [e])
  unfold Elem.holds at h1 h2
  rcases pairwise_or _ s.index h.sorted a ha b hb this with h3 | h3 <;> omega

/-! ### every operation preserves the invariant -/

theorem wake_sub (parked : List (Nat × Nat)) (ids : List Nat) :
    ∀ p ∈ (wake parked ids).1, p ∈ parked ∧ p.2 ∉ ids := by
  intro p hp
  simp only [wake, List.mem_filter] at hp
  exact ⟨hp.1, by simpa using hp.2⟩

/-- **C18, try-lock.** `try_lock_wait*` either parks on a really conflicting held element, or
    inserts the new range; the invariant (sorted ⇒ disjoint) is preserved either way. -/
theorem tryLock_inv (s : State) (t off len : Nat) (hoff : off ≤ MAXU) (h : Inv s) :
    Inv (tryLock s t off len).1 := by
  obtain ⟨h1, h2, h3⟩ := lowerBound_spec s.index off
  have hpart := C18_partition s.index off h.sorted h.u64
  unfold tryLock
  cases hb : (lowerBound s.index off).2 with
  | nil =>
    rw [hb, List.append_nil] at h1
    simp only [hb]
    have hidx : (lowerBound s.index off).1 = s.index := h1
    constructor
    · show Sorted ((lowerBound s.index off).1 ++ [⟨s.nextId, off, len⟩])
      rw [hidx]; unfold Sorted
      rw [List.pairwise_append]
      refine ⟨h.sorted, by simp, ?_⟩
      intro a ha b hb'; simp at hb'; subst hb'; exact h2 a (by rw [hidx]; exact ha)
    · show U64 ((lowerBound s.index off).1 ++ [⟨s.nextId, off, len⟩])
      rw [hidx]; intro e he; simp at he
      rcases he with he | rfl
      · exact h.u64 e he
      · exact hoff
    · show ∀ e ∈ (lowerBound s.index off).1 ++ [⟨s.nextId, off, len⟩], e.id < s.nextId + 1
      rw [hidx]; intro e he; simp at he
      rcases he with he | rfl
      · have := h.fresh e he; omega
      · simp
    · show (((lowerBound s.index off).1 ++ [(⟨s.nextId, off, len⟩ : Elem)]).map (·.id)).Nodup
      rw [hidx, List.map_append, List.nodup_append]
      refine ⟨h.nodup, by simp, ?_⟩
      intro a ha b hb'; simp at hb'; subst hb'
      simp at ha; obtain ⟨e, he, rfl⟩ := ha
      have := h.fresh e he; omega
    · intro p hp
      obtain ⟨e, he, hid⟩ := h.parked_held p hp
      exact ⟨e, by show e ∈ (lowerBound s.index off).1 ++ [_]; rw [hidx]; simp [he], hid⟩
  | cons it r =>
    simp only [hb]
    rw [hb] at h1 hpart
    have hit : it ∈ s.index := by rw [← h1]; simp
    by_cases hc : it.off < rend off len
    · -- conflict: park on `it`
      simp only [hc, if_true]
      exact ⟨h.sorted, h.u64, h.fresh, h.nodup, by
        intro p hp; simp at hp
        rcases hp with hp | rfl
        · exact h.parked_held p hp
        · exact ⟨it, hit, rfl⟩⟩
    · simp only [hc, if_false]
      have hs' := h.sorted
      unfold Sorted at hs'
      rw [← h1] at hs'
      obtain ⟨sa, sb, sab⟩ := List.pairwise_append.mp hs'
      obtain ⟨sit, sr⟩ := List.pairwise_cons.mp sb
      have hitu : it.off ≤ MAXU := h.u64 it hit
      have hite := off_le_end it hitu
      constructor
      · show Sorted ((lowerBound s.index off).1 ++ ⟨s.nextId, off, len⟩ :: it :: r)
        unfold Sorted
        rw [List.pairwise_append]
        refine ⟨sa, ?_, ?_⟩
        · rw [List.pairwise_cons]
          refine ⟨?_, sb⟩
          intro y hy
          show rend off len ≤ y.off
          simp only [List.mem_cons] at hy
          rcases hy with rfl | hy
          · omega
          · have := sit y hy; omega
        · intro a ha b hb'
          simp only [List.mem_cons] at hb'
          rcases hb' with rfl | hb'
          · exact h2 a ha
          · exact sab a ha b (by simpa using hb')
      · show U64 ((lowerBound s.index off).1 ++ ⟨s.nextId, off, len⟩ :: it :: r)
        intro e he
        simp only [List.mem_append, List.mem_cons] at he
        rcases he with he | rfl | he
        · exact h.u64 e (by rw [← h1]; simp [he])
        · exact hoff
        · exact h.u64 e (by rw [← h1]; simp only [List.mem_append, List.mem_cons]; right; exact he)
      · show ∀ e ∈ (lowerBound s.index off).1 ++ ⟨s.nextId, off, len⟩ :: it :: r, e.id < s.nextId + 1
        intro e he
        simp only [List.mem_append, List.mem_cons] at he
        rcases he with he | rfl | he
        · have := h.fresh e (by rw [← h1]; simp [he]); omega
        · simp
        · have := h.fresh e (by rw [← h1]; simp only [List.mem_append, List.mem_cons]; right; exact he); omega
      · show (((lowerBound s.index off).1 ++ (⟨s.nextId, off, len⟩ : Elem) :: it :: r).map (·.id)).Nodup
        have hnd := h.nodup
        rw [← h1, List.map_append, List.nodup_append] at hnd
        obtain ⟨na, nb, nab⟩ := hnd
        rw [List.map_append, List.nodup_append]
        refine ⟨na, ?_, ?_⟩
        · rw [List.map_cons, List.nodup_cons]
          refine ⟨?_, nb⟩
          intro hm
          simp only [List.mem_map] at hm
          obtain ⟨e, he, hid⟩ := hm
          have := h.fresh e (by rw [← h1]; simp only [List.mem_append]; right; exact he)
          omega
        · intro a ha b hb'
          simp only [List.map_cons, List.mem_cons] at hb'
          rcases hb' with rfl | hb'
          · simp only [List.mem_map] at ha
            obtain ⟨e, he, rfl⟩ := ha
            have := h.fresh e (by rw [← h1]; simp [he])
            show e.id ≠ s.nextId; omega
          · exact nab a ha b (by simpa using hb')
      · intro p hp
        obtain ⟨e, he, hid⟩ := h.parked_held p hp
        refine ⟨e, ?_, hid⟩
        show e ∈ (lowerBound s.index off).1 ++ ⟨s.nextId, off, len⟩ :: it :: r
        rw [← h1] at he
        simp only [List.mem_append, List.mem_cons] at he ⊢
        rcases he with he | he | he
        · exact Or.inl he
        · exact Or.inr (Or.inr (Or.inl he))
        · exact Or.inr (Or.inr (Or.inr he))

/-- a conflict reported by `try_lock_wait*` is a real one: the element parked on is held and
    overlaps the request (for a non-empty request it shares a byte with it) -/
theorem C18_conflict_real (s : State) (t off len id co cl : Nat)
    (hr : (tryLock s t off len).2 = .conflict id co cl) :
    ∃ e ∈ s.index, e.id = id ∧ e.off < rend off len ∧ off < e.end_ := by
  obtain ⟨h1, h2, h3⟩ := lowerBound_spec s.index off
  unfold tryLock at hr
  cases hb : (lowerBound s.index off).2 with
  | nil => simp [hb] at hr
  | cons it r =>
    simp only [hb] at hr
    by_cases hc : it.off < rend off len
    · simp only [hc, if_true] at hr
      injection hr with e1 e2 e3
      exact ⟨it, by rw [← h1, hb]; simp, e1, hc, h3 it r hb⟩
    · simp [hc] at hr

/-- **C18, unlock by handle**: erases the element, wakes every thread parked on it, keeps the
    invariant. -/
theorem unlockHandle_inv (s : State) (id : Nat) (h : Inv s) : Inv (unlockHandle s id).1 := by
  unfold unlockHandle
  constructor
  · exact List.Pairwise.filter _ h.sorted
  · intro e he; exact h.u64 e (List.mem_filter.mp he).1
  · intro e he; exact h.fresh e (List.mem_filter.mp he).1
  · exact List.Nodup.sublist (List.Sublist.map _ List.filter_sublist) h.nodup
  · intro p hp
    obtain ⟨hp1, hp2⟩ := wake_sub s.parked [id] p hp
    obtain ⟨e, he, hid⟩ := h.parked_held p hp1
    refine ⟨e, ?_, hid⟩
    simp only [List.mem_filter]
    refine ⟨he, ?_⟩
    simp at hp2; simp [hid]; exact hp2

theorem unlockScan_spec (l : List Elem) (off e_ : Nat) :
    (unlockScan l off e_).1.Sublist l ∧
    (∀ x ∈ l, x ∈ (unlockScan l off e_).1 ∨ x.id ∈ (unlockScan l off e_).2) := by
  induction l with
  | nil => simp [unlockScan]
  | cons x r ih =>
    unfold unlockScan
    by_cases h1 : x.off < e_
    · simp only [h1, if_true]
      obtain ⟨i1, i2⟩ := ih
      by_cases h2 : off ≤ x.off ∧ e_ ≥ x.end_
      · simp only [h2, and_self, if_true]
        refine ⟨List.Sublist.cons _ i1, ?_⟩
        intro y hy; simp only [List.mem_cons] at hy
        rcases hy with rfl | hy
        · right; simp
        · rcases i2 y hy with h | h
          · left; exact h
          · right; simp [h]
      · simp only [h2, if_false]
        refine ⟨List.Sublist.cons_cons _ i1, ?_⟩
        intro y hy; simp only [List.mem_cons] at hy
        rcases hy with rfl | hy
        · left; simp
        · rcases i2 y hy with h | h
          · left; simp [h]
          · right; exact h
    · simp only [h1, if_false]
      exact ⟨List.Sublist.refl _, fun y hy => Or.inl hy⟩

/-- **C18, unlock by range**: erases the contained elements, wakes exactly the threads parked on
    them, keeps the invariant. -/
theorem unlockRange_inv (s : State) (off len : Nat) (h : Inv s) : Inv (unlockRange s off len).1 := by
  obtain ⟨h1, _, _⟩ := lowerBound_spec s.index off
  obtain ⟨u1, u2⟩ := unlockScan_spec (lowerBound s.index off).2 off (rend off len)
  have hsub : ((lowerBound s.index off).1 ++
      (unlockScan (lowerBound s.index off).2 off (rend off len)).1).Sublist s.index := by
    conv => rhs; rw [← h1]
    exact List.Sublist.append (List.Sublist.refl _) u1
  unfold unlockRange
  constructor
  · exact List.Pairwise.sublist hsub h.sorted
  · intro e he; exact h.u64 e (hsub.subset he)
  · intro e he; exact h.fresh e (hsub.subset he)
  · exact List.Nodup.sublist (List.Sublist.map _ hsub) h.nodup
  · intro p hp
    obtain ⟨hp1, hp2⟩ := wake_sub s.parked _ p hp
    obtain ⟨e, he, hid⟩ := h.parked_held p hp1
    refine ⟨e, ?_, hid⟩
    rw [← h1] at he
    simp only [List.mem_append] at he ⊢
    rcases he with he | he
    · exact Or.inl he
    · rcases u2 e he with hk | hg
      · exact Or.inr hk
      · rw [hid] at hg; exact absurd hg hp2

/-! ### adjust_range -/

theorem prevEnd_decomp (pre : List Elem) (r0 : Elem) (post : List Elem) (id : Nat)
    (hpre : ∀ x ∈ pre, x.id ≠ id) (hr : r0.id = id) : ∀ acc,
    prevEnd (pre ++ r0 :: post) id acc = (match pre.getLast? with | none => acc | some x => x.end_) := by
  induction pre with
  | nil => intro acc; simp [prevEnd, hr]
  | cons x r ih =>
    intro acc
    have hx : x.id ≠ id := hpre x (by simp)
    simp only [List.cons_append, prevEnd, hx, if_false]
    rw [ih (fun y hy => hpre y (by simp [hy]))]
    cases r with
    | nil => simp
    | cons y r' =>
      rw [List.getLast?_cons_cons]
      cases hgl : (y :: r').getLast? with
      | none => simp [List.getLast?_eq_none_iff] at hgl
      | some z => rfl

theorem nextOffset_decomp (pre : List Elem) (r0 : Elem) (post : List Elem) (id : Nat)
    (hpre : ∀ x ∈ pre, x.id ≠ id) (hr : r0.id = id) :
    nextOffset (pre ++ r0 :: post) id = (match post with | [] => MAXU | n :: _ => n.off) := by
  induction pre with
  | nil => simp only [List.nil_append, nextOffset, hr, if_true]; cases post <;> rfl
  | cons x r ih =>
    have hx : x.id ≠ id := hpre x (by simp)
    simp only [List.cons_append, nextOffset, hx, if_false]
    exact ih (fun y hy => hpre y (by simp [hy]))

theorem map_replace (pre : List Elem) (r0 : Elem) (post : List Elem) (id : Nat) (new : Elem)
    (hpre : ∀ x ∈ pre, x.id ≠ id) (hpost : ∀ x ∈ post, x.id ≠ id) (hr : r0.id = id) :
    (pre ++ r0 :: post).map (fun e => if e.id = id then new else e) = pre ++ new :: post := by
  rw [List.map_append, List.map_cons]
  congr 1
  · conv => rhs; rw [← List.map_id pre]
    apply List.map_congr_left; intro x hx; simp [hpre x hx]
  · simp only [hr, if_true]
    congr 1
    conv => rhs; rw [← List.map_id post]
    apply List.map_congr_left; intro x hx; simp [hpost x hx]

theorem last_end_max (pre : List Elem) (hs : Sorted pre) (hu : U64 pre) :
    ∀ a ∈ pre, ∀ p, pre.getLast? = some p → a.end_ ≤ p.end_ := by
  induction pre with
  | nil => intro a ha; simp at ha
  | cons x r ih =>
    intro a ha p hp
    obtain ⟨hx, hr⟩ := List.pairwise_cons.mp hs
    cases r with
    | nil => simp at hp ha; subst hp; subst ha; exact Nat.le_refl _
    | cons y r' =>
      rw [List.getLast?_cons_cons] at hp
      have hpm : p ∈ y :: r' := List.mem_of_getLast? hp
      simp only [List.mem_cons] at ha
      rcases ha with rfl | ha
      · have h1 := hx p hpm
        have h2 := off_le_end p (hu p (by simp only [List.mem_cons]; right; simpa using hpm))
        omega
      · exact ih hr (fun e he => hu e (List.mem_cons_of_mem _ he)) a
          (by simpa using ha) p hp

/-- **C18, adjust_range.** A successful in-place key change keeps the index sorted (hence the held
    ranges disjoint), whatever the new range is; a refused one changes nothing. -/
theorem adjust_inv (s s' : State) (id off len : Nat) (hoff : off ≤ MAXU) (h : Inv s)
    (ha : adjust s id off len = some s') : Inv s' := by
  unfold adjust at ha
  cases hf : s.index.find? (fun e => e.id == id) with
  | none => simp [hf] at ha
  | some r0 =>
    simp only [hf] at ha
    obtain ⟨hp, pre, post, hdec, hnp⟩ := List.find?_eq_some_iff_append.mp hf
    have hr0 : r0.id = id := by simpa using hp
    have hpre : ∀ x ∈ pre, x.id ≠ id := by intro x hx; simpa using hnp x hx
    have hnd := h.nodup
    rw [hdec, List.map_append, List.map_cons, List.nodup_append] at hnd
    obtain ⟨_, nb, nab⟩ := hnd
    have hpost : ∀ x ∈ post, x.id ≠ id := by
      intro x hx hxid
      have := (List.nodup_cons.mp nb).1
      apply this; rw [hr0, ← hxid]; exact List.mem_map.mpr ⟨x, hx, rfl⟩
    split at ha
    · simp at ha
    · next hcond =>
      injection ha with ha
      subst ha
      have hidx : (s.index.map fun e => if e.id = id then (⟨id, off, len⟩ : Elem) else e) =
          pre ++ ⟨id, off, len⟩ :: post := by
        rw [hdec]; exact map_replace pre r0 post id _ hpre hpost hr0
      have hs := h.sorted
      unfold Sorted at hs
      rw [hdec] at hs
      obtain ⟨spre, sb, sab⟩ := List.pairwise_append.mp hs
      obtain ⟨sr0, spost⟩ := List.pairwise_cons.mp sb
      have hu := h.u64
      rw [hdec] at hu
      have hupre : U64 pre := fun e he => hu e (by simp [he])
      rw [hdec, prevEnd_decomp pre r0 post id hpre hr0, nextOffset_decomp pre r0 post id hpre hr0] at hcond
      have hr0u : r0.off ≤ MAXU := hu r0 (by simp)
      have hr0e := off_le_end r0 hr0u
      constructor
      · show Sorted (s.index.map fun e => if e.id = id then (⟨id, off, len⟩ : Elem) else e)
        rw [hidx]; unfold Sorted
        rw [List.pairwise_append]
        refine ⟨spre, ?_, ?_⟩
        · rw [List.pairwise_cons]
          refine ⟨?_, spost⟩
          intro b hb
          show rend off len ≤ b.off
          have hb0 := sr0 b hb
          cases post with
          | nil => simp at hb
          | cons n post' =>
            simp only at hcond
            have hn : n.off ≤ b.off := by
              simp only [List.mem_cons] at hb
              rcases hb with rfl | hb
              · exact Nat.le_refl _
              · have := (List.pairwise_cons.mp spost).1 b hb
                have := off_le_end n (hu n (by simp))
                omega
            omega
        · intro a ha b hb
          simp only [List.mem_cons] at hb
          rcases hb with rfl | hb
          · show a.end_ ≤ off
            have ha0 := sab a ha r0 (by simp)
            cases hl : pre.getLast? with
            | none => rw [List.getLast?_eq_none_iff] at hl; subst hl; simp at ha
            | some p =>
              rw [hl] at hcond
              simp only at hcond
              have := last_end_max pre spre hupre a ha p hl
              omega
          · exact sab a ha b (by simp [hb])
      · show U64 (s.index.map fun e => if e.id = id then (⟨id, off, len⟩ : Elem) else e)
        rw [hidx]; intro e he
        simp only [List.mem_append, List.mem_cons] at he
        rcases he with he | rfl | he
        · exact hu e (by simp [he])
        · exact hoff
        · exact hu e (by simp [he])
      · show ∀ e ∈ (s.index.map fun e => if e.id = id then (⟨id, off, len⟩ : Elem) else e), e.id < s.nextId
        rw [hidx]; intro e he
        simp only [List.mem_append, List.mem_cons] at he
        rcases he with he | rfl | he
        · exact h.fresh e (by rw [hdec]; simp [he])
        · show id < s.nextId; rw [← hr0]; exact h.fresh r0 (by rw [hdec]; simp)
        · exact h.fresh e (by rw [hdec]; simp [he])
      · show ((s.index.map fun e => if e.id = id then (⟨id, off, len⟩ : Elem) else e).map (·.id)).Nodup
        have : (s.index.map fun e => if e.id = id then (⟨id, off, len⟩ : Elem) else e).map (·.id) =
            s.index.map (·.id) := by
          rw [List.map_map]; apply List.map_congr_left; intro e _
          simp only [Function.comp]; split <;> simp_all
        rw [this]; exact h.nodup
      · intro p hp'
        obtain ⟨e, he, hid⟩ := h.parked_held p hp'
        refine ⟨if e.id = id then ⟨id, off, len⟩ else e, List.mem_map.mpr ⟨e, he, rfl⟩, ?_⟩
        split
        · next hh => show id = p.2; rw [← hid, hh]
        · exact hid

/-! ### every reachable state -/

/-- the operations of the model, as events -/
inductive Op where
  | lock (t off len : Nat)
  | unlock (id : Nat)
  | unlockRange (off len : Nat)
  | adjust (id off len : Nat)

def Op.wf : Op → Prop
  | .lock _ off _ => off ≤ MAXU
  | .adjust _ off _ => off ≤ MAXU
  | _ => True

def apply (s : State) : Op → State
  | .lock t off len => (tryLock s t off len).1
  | .unlock id => (unlockHandle s id).1
  | .unlockRange off len => (unlockRange s off len).1
  | .adjust id off len => (adjust s id off len).getD s

/-- **C18, main theorem.** After *any* sequence of lock / try-lock-and-wait / unlock (by handle or by
    range) / adjust operations, by any threads, with ranges of any length (zero, adjacent, nested,
    saturating at the top of the 64-bit space), the held ranges are pairwise disjoint and every
    parked waiter waits on a range that is still held (an unlock wakes all waiters of what it
    erases, `wake`). -/
theorem C18_reachable_inv (ops : List Op) (hwf : ∀ o ∈ ops, o.wf) : Inv (ops.foldl apply {}) := by
  suffices ∀ s, Inv s → Inv (ops.foldl apply s) from this {} inv_init
  induction ops with
  | nil => intro s h; exact h
  | cons o r ih =>
    intro s h
    simp only [List.foldl_cons]
    apply ih (fun o' ho' => hwf o' (by simp [ho']))
    have ho := hwf o (by simp)
    cases o with
    | lock t off len => exact tryLock_inv s t off len ho h
    | unlock id => exact unlockHandle_inv s id h
    | unlockRange off len => exact unlockRange_inv s off len h
    | adjust id off len =>
      simp only [apply]
      cases ha : adjust s id off len with
      | none => exact h
      | some s' => exact adjust_inv s s' id off len ho h ha

/-- non-vacuity: a concrete history with a zero-length, an adjacent and a saturating range -/
example : (([.lock 1 10 10, .lock 2 20 5, .lock 3 15 10, .lock 4 5 0, .lock 5 (2^64 - 4) (2^64 - 1),
    .adjust 0 8 12, .unlock 1] : List Op).foldl apply {}).index.map (fun e => (e.id, e.off, e.len)) =
    [(2, 5, 0), (0, 8, 12), (3, 2^64 - 4, 2^64 - 1)] := by decide

end Photon.RangeLock
