import Photon.Model.ObjLog
import Photon.Model.ObjCache
/-!
# C19 — ObjectCache: one live object per key, never destroyed while borrowed

Model: `Photon/Model/ObjCache.lean`, the specification automaton every single-vCPU history of
acquire / release calls, constructor begin / end and destructor calls must be accepted by.
-/
namespace Photon.ObjCache

theorem step_ok (s s' : St) (e : Ev) (h : step s e = .ok s') : pre s e = none ∧ s' = eff s e := by
  unfold step at h
  cases hp : pre s e with
  | some m => rw [hp] at h; exact absurd h (by simp)
  | none => rw [hp] at h; exact ⟨rfl, by injection h with h; exact h.symm⟩

/-- **C19, never destroyed while referenced; expiry only after the lifespan.** A destructor call
    is accepted only for the key's live object, with no acquirer holding a reference, and — unless
    it is the recycler's own destroy — only once the lifespan since the last release has passed. -/
theorem C19_no_destroy_while_ref (s s' : St) (k o : Nat) (h : step s (.dtor k o) = .ok s') :
    (s.item k).live = some o ∧ (s.item k).refcnt = 0 ∧
    ((s.item k).recycling = 0 → (s.item k).lastRelease + s.lifespan < s.now) := by
  obtain ⟨hp, _⟩ := step_ok s s' _ h
  simp only [pre] at hp
  by_cases c1 : (s.item k).live ≠ some o
  · rw [if_pos c1] at hp; exact absurd hp (by simp)
  · by_cases c2 : (s.item k).refcnt ≠ 0
    · rw [if_neg c1, if_pos c2] at hp; exact absurd hp (by simp)
    · refine ⟨by simpa using c1, by simpa using c2, fun hr => ?_⟩
      by_cases c3 : (s.item k).lastRelease + s.lifespan < s.now
      · exact c3
      · rw [if_neg c1, if_neg c2, if_pos ⟨hr, c3⟩] at hp; exact absurd hp (by simp)

/-- **C19, one constructor at a time per key**, and never while the key has a live object -/
theorem C19_ctor_excl (s s' : St) (k : Nat) (h : step s (.ctorBegin k) = .ok s') :
    (s.item k).constructing = false ∧ (s.item k).live = none := by
  obtain ⟨hp, _⟩ := step_ok s s' _ h
  simp only [pre] at hp
  cases hc : (s.item k).constructing with
  | true => rw [hc] at hp; simp at hp
  | false =>
    rw [hc] at hp
    simp only [Bool.false_eq_true, if_false] at hp
    cases hl : (s.item k).live with
    | none => exact ⟨rfl, rfl⟩
    | some o => rw [hl] at hp; simp at hp

/-- **C19, concurrent acquirers of a key share one object**: a successful acquire returns the
    key's live object -/
theorem C19_acquire_returns_live (s s' : St) (k o : Nat) (h : step s (.retAcquire k (some o)) = .ok s') :
    (s.item k).live = some o := by
  obtain ⟨hp, _⟩ := step_ok s s' _ h
  simp only [pre] at hp
  by_cases c : (s.item k).live ≠ some o
  · rw [if_pos c] at hp; exact absurd hp (by simp)
  · simpa using c

/-- **C19, a recycling release returns only after every other holder has released** -/
theorem C19_recycle_waits_all (s s' : St) (k : Nat) (h : step s (.retRelease k true) = .ok s') :
    (s.item k).refcnt = 0 := by
  obtain ⟨hp, _⟩ := step_ok s s' _ h
  simp only [pre] at hp
  by_cases c : (s.item k).refcnt = 0
  · exact c
  · rw [if_pos ⟨trivial, c⟩] at hp; exact absurd hp (by simp)

/-- **C19, a failed construction does not poison attempts beyond the cooldown.** An `acquire` may answer
    null *without trying the caller's constructor* only if a construction of that key failed at some time
    `f` and the caller's cooldown has not yet passed (`now < f + cd`); in particular never for a key whose
    constructions never failed, and never with cooldown 0. -/
theorem C19_no_poison_beyond_cooldown (s s' : St) (k cd : Nat) (h : step s (.retAcquireNoCtor k cd) = .ok s') :
    ∃ f, (s.item k).lastFail = some f ∧ s.now < f + cd := by
  obtain ⟨hp, _⟩ := step_ok s s' _ h
  simp only [pre] at hp
  cases hl : (s.item k).lastFail with
  | none => rw [hl] at hp; simp at hp
  | some f =>
    rw [hl] at hp
    refine ⟨f, rfl, ?_⟩
    by_cases c : s.now < f + cd
    · exact c
    · simp [c] at hp

/-- `lastFail` is the time of a real failed constructor run: it only changes at a failing `ctorEnd`. -/
theorem C19_lastFail_only_from_failed_ctor (s s' : St) (e : Ev) (h : step s e = .ok s') (k : Nat)
    (hne : (s'.item k).lastFail ≠ (s.item k).lastFail) :
    e = .ctorEnd k none ∧ (s'.item k).lastFail = some s.now ∨ (∃ l, e = .init l) := by
  obtain ⟨hp, hs⟩ := step_ok s s' _ h
  subst hs
  cases e <;> simp only [eff] at hne ⊢
  case init l => exact Or.inr ⟨l, rfl⟩
  case ctorEnd k' obj =>
    left
    by_cases hk : k = k'
    · subst hk
      cases obj with
      | none => simp [upd]
      | some o => simp [upd] at hne
    · simp [upd, hk] at hne
  case retAcquire k' obj => cases obj <;> simp [upd] at hne <;> (split at hne <;> simp_all)
  all_goals first
    | exact absurd rfl hne
    | (simp only [upd] at hne; split at hne <;> simp_all)

/-! ### a referenced key always has a live object (state form of "never destroyed while borrowed") -/

structure Inv (s : St) : Prop where
  ref_live : ∀ k, (s.item k).live = none → (s.item k).refcnt = 0
  ctor_none : ∀ k, (s.item k).constructing = true → (s.item k).live = none

theorem eff_inv (s : St) (e : Ev) (hp : pre s e = none) (h : Inv s) : Inv (eff s e) := by
  cases e <;> simp only [eff]
  case init l => exact ⟨fun _ _ => rfl, fun k hc => by simp at hc⟩
  case tick n => exact ⟨h.ref_live, h.ctor_none⟩
  case retAcquireNoCtor k cd => exact h
  case ctorBegin k =>
    have hl : (s.item k).live = none := by
      simp only [pre] at hp
      cases hc : (s.item k).constructing with
      | true => rw [hc] at hp; simp at hp
      | false =>
        rw [hc] at hp; simp only [Bool.false_eq_true, if_false] at hp
        cases hl : (s.item k).live with
        | none => rfl
        | some o => rw [hl] at hp; simp at hp
    constructor
    · intro k' hk; simp only [upd] at hk ⊢; split
      · next heq => subst heq; simp only [if_true] at hk; exact h.ref_live k' hl
      · next hne => simp only [hne, if_false] at hk; exact h.ref_live k' hk
    · intro k' hk; simp only [upd] at hk ⊢; split
      · next heq => subst heq; exact hl
      · next hne => simp only [hne, if_false] at hk; exact h.ctor_none k' hk
  case ctorEnd k obj =>
    have hcon : (s.item k).constructing = true := by
      simp only [pre] at hp
      cases hc : (s.item k).constructing with
      | true => rfl
      | false => rw [hc] at hp; simp at hp
    have hl := h.ctor_none k hcon
    constructor
    · intro k' hk; simp only [upd] at hk ⊢; split
      · next heq => subst heq; exact h.ref_live k' hl
      · next hne => simp only [hne, if_false] at hk; exact h.ref_live k' hk
    · intro k' hk; simp only [upd] at hk ⊢; split
      · next heq => subst heq; simp at hk
      · next hne => simp only [hne, if_false] at hk; exact h.ctor_none k' hk
  case retAcquire k obj =>
    cases obj with
    | none => exact h
    | some o =>
      have hl : (s.item k).live = some o := by
        simp only [pre] at hp
        by_cases c : (s.item k).live ≠ some o
        · rw [if_pos c] at hp; exact absurd hp (by simp)
        · simpa using c
      constructor
      · intro k' hk; simp only [upd] at hk ⊢; split
        · next heq => subst heq; simp only [if_true] at hk; rw [hl] at hk; exact absurd hk (by simp)
        · next hne => simp only [hne, if_false] at hk; exact h.ref_live k' hk
      · intro k' hk; simp only [upd] at hk ⊢; split
        · next heq => subst heq; simp only [if_true] at hk; exact h.ctor_none k' hk
        · next hne => simp only [hne, if_false] at hk; exact h.ctor_none k' hk
  case callRelease k r =>
    constructor
    · intro k' hk; simp only [upd] at hk ⊢; split
      · next heq => subst heq; simp only [if_true] at hk; have := h.ref_live k' hk; simp only []; omega
      · next hne => simp only [hne, if_false] at hk; exact h.ref_live k' hk
    · intro k' hk; simp only [upd] at hk ⊢; split
      · next heq => subst heq; simp only [if_true] at hk; exact h.ctor_none k' hk
      · next hne => simp only [hne, if_false] at hk; exact h.ctor_none k' hk
  case retRelease k r =>
    constructor
    · intro k' hk; simp only [upd] at hk ⊢; split
      · next heq => subst heq; simp only [if_true] at hk; exact h.ref_live k' hk
      · next hne => simp only [hne, if_false] at hk; exact h.ref_live k' hk
    · intro k' hk; simp only [upd] at hk ⊢; split
      · next heq => subst heq; simp only [if_true] at hk; exact h.ctor_none k' hk
      · next hne => simp only [hne, if_false] at hk; exact h.ctor_none k' hk
  case dtor k o =>
    have hz : (s.item k).refcnt = 0 := by
      simp only [pre] at hp
      by_cases c1 : (s.item k).live ≠ some o
      · rw [if_pos c1] at hp; exact absurd hp (by simp)
      · by_cases c2 : (s.item k).refcnt ≠ 0
        · rw [if_neg c1, if_pos c2] at hp; exact absurd hp (by simp)
        · simpa using c2
    have hlive : (s.item k).live = some o := by
      simp only [pre] at hp
      by_cases c1 : (s.item k).live ≠ some o
      · rw [if_pos c1] at hp; exact absurd hp (by simp)
      · simpa using c1
    constructor
    · intro k' hk; simp only [upd] at hk ⊢; split
      · next heq => subst heq; exact hz
      · next hne => simp only [hne, if_false] at hk; exact h.ref_live k' hk
    · intro k' hk; simp only [upd] at hk ⊢; split
      · next heq => subst heq; rfl
      · next hne => simp only [hne, if_false] at hk; exact h.ctor_none k' hk

theorem run_inv : ∀ (tr : List Ev) (s s' : St), run s tr = .ok s' → Inv s → Inv s' := by
  intro tr; induction tr with
  | nil => intro s s' h hi; simp [run] at h; rw [← h]; exact hi
  | cons e es ih =>
    intro s s' h hi
    simp only [run] at h
    cases hs : step s e with
    | error m => rw [hs] at h; exact absurd h (by simp)
    | ok s1 =>
      rw [hs] at h
      obtain ⟨hp, hs'⟩ := step_ok s s1 e hs
      exact ih s1 s' h (by rw [hs']; exact eff_inv s e hp hi)

/-- **C19, a held reference always points to a live object.** For every accepted history: as long
    as any acquirer holds a reference to a key, the key has a live (constructed, not destroyed)
    object — and no constructor is running for it. -/
theorem C19_referenced_is_live (tr : List Ev) (s : St) (h : run {} tr = .ok s) (k : Nat)
    (hr : 0 < (s.item k).refcnt) : (s.item k).live.isSome ∧ (s.item k).constructing = false := by
  have hi := run_inv tr {} s h ⟨fun _ _ => rfl, fun k hc => by simp at hc⟩
  constructor
  · cases hl : (s.item k).live with
    | none => have := hi.ref_live k hl; omega
    | some o => rfl
  · cases hc : (s.item k).constructing with
    | false => rfl
    | true => have := hi.ref_live k (hi.ctor_none k hc); omega

/-! ### non-vacuity -/
example : (run {} [.init 1000, .ctorBegin 7, .ctorEnd 7 (some 100), .retAcquire 7 (some 100),
    .retAcquire 7 (some 100), .callRelease 7 false, .retRelease 7 false, .tick 50, .callRelease 7 false,
    .retRelease 7 false, .tick 1051, .dtor 7 100]).isOk = true := by decide
example : (run {} [.init 1000, .ctorBegin 7, .ctorEnd 7 (some 100), .retAcquire 7 (some 100),
    .dtor 7 100]).isOk = false := by decide


/-! ### non-vacuity of the cooldown clause: a concurrent waiter inside the cooldown is answered null without its
    constructor; the same answer at `now = f + cd` is rejected -/
example : (run {} [.init 1000, .tick 10, .ctorBegin 7, .ctorEnd 7 none, .retAcquire 7 none, .tick 12,
    .retAcquireNoCtor 7 5]).isOk = true := by decide
example : (run {} [.init 1000, .tick 10, .ctorBegin 7, .ctorEnd 7 none, .retAcquire 7 none, .tick 15,
    .retAcquireNoCtor 7 5]).isOk = false := by decide
example : (run {} [.init 1000, .tick 10, .retAcquireNoCtor 7 1000000000]).isOk = false := by decide

end Photon.ObjCache

/-! ### several vCPUs: the object ledger of real concurrent runs (`Model/ObjLog.lean`, harness `mv_obj`) -/
namespace Photon.ObjLog

theorem step_ok (s s' : St) (e : Ev) (h : step s e = .ok s') : pre s e = none ∧ s' = eff s e := by
  unfold step at h
  cases hp : pre s e with
  | some m => rw [hp] at h; exact absurd h (by simp)
  | none => rw [hp] at h; exact ⟨rfl, by injection h with h; exact h.symm⟩

/-- **C19 (several vCPUs), never destroyed while borrowed.** An accepted destruction is of a live object of the key and no
    reference to it is held. -/
theorem C19_mv_destroy (s s' : St) (k o : Nat) (h : step s (.destroyed k o) = .ok s') :
    s.refs.contains o = false ∧ (k, o) ∈ s.live := by
  obtain ⟨hp, _⟩ := step_ok s s' _ h
  simp only [pre] at hp
  cases hr : s.refs.contains o with
  | true => rw [hr] at hp; simp at hp
  | false =>
    rw [hr] at hp
    simp only [Bool.false_eq_true, if_false] at hp
    refine ⟨rfl, ?_⟩
    cases hl : s.live.contains (k, o) with
    | true => simpa using hl
    | false => rw [hl] at hp; simp at hp

/-- **constructor exclusion**: an accepted constructor start finds no constructor running for the key. -/
theorem C19_mv_ctor (s s' : St) (k : Nat) (h : step s (.ctorBegin k) = .ok s') : s.ctor.contains k = false := by
  obtain ⟨hp, _⟩ := step_ok s s' _ h
  simp only [pre] at hp
  cases hc : s.ctor.contains k with
  | true => rw [hc] at hp; simp at hp
  | false => rfl

/-- **acquirers share the live object**: an accepted `acquired k o` returns the key's most recently constructed live object. -/
theorem C19_mv_acquire (s s' : St) (k o : Nat) (h : step s (.acquired k o) = .ok s') : liveOf s k = some o := by
  obtain ⟨hp, _⟩ := step_ok s s' _ h
  simp only [pre] at hp
  by_cases hl : liveOf s k = some o
  · exact hl
  · rw [if_neg hl] at hp; exact absurd hp (by simp)

theorem C19_mv_never_dead (s s' : St) : step s .dead ≠ .ok s' := by
  intro h; obtain ⟨hp, _⟩ := step_ok s s' _ h; simp [pre] at hp

/-- invariant over every accepted history: every held reference is to a live object -/
def Inv (s : St) : Prop := ∀ o ∈ s.refs, ∃ k, (k, o) ∈ s.live

theorem liveOf_mem (s : St) (k o : Nat) (h : liveOf s k = some o) : (k, o) ∈ s.live := by
  unfold liveOf at h
  cases hf : s.live.find? (·.1 == k) with
  | none => rw [hf] at h; simp at h
  | some p =>
    rw [hf] at h
    simp only [Option.map_some, Option.some.injEq] at h
    have hm := List.mem_of_find?_eq_some hf
    have hk := List.find?_some hf
    simp only [beq_iff_eq] at hk
    obtain ⟨a, b⟩ := p
    simp only at hk h
    subst hk; subst h; exact hm

theorem eff_inv (s : St) (e : Ev) (hi : Inv s) (hp : pre s e = none) : Inv (eff s e) := by
  cases e with
  | ctorBegin k => exact hi
  | dead => exact hi
  | ctorEnd k o =>
    intro x hx
    simp only [eff] at hx ⊢
    obtain ⟨k', hk'⟩ := hi x hx
    refine ⟨k', ?_⟩
    split
    · exact hk'
    · exact List.mem_cons_of_mem _ hk'
  | acquired k o =>
    intro x hx
    simp only [eff, List.mem_cons] at hx ⊢
    rcases hx with hx | hx
    · subst hx
      simp only [pre] at hp
      by_cases hl : liveOf s k = some x
      · exact ⟨k, liveOf_mem s k x hl⟩
      · rw [if_neg hl] at hp; exact absurd hp (by simp)
    · exact hi x hx
  | releasing k o =>
    intro x hx
    simp only [eff] at hx ⊢
    exact hi x (List.mem_of_mem_erase hx)
  | destroyed k o =>
    intro x hx
    simp only [eff] at hx ⊢
    simp only [pre] at hp
    cases hr : s.refs.contains o with
    | true => rw [hr] at hp; simp at hp
    | false =>
      rw [hr] at hp
      obtain ⟨k', hk'⟩ := hi x hx
      have hxo : x ≠ o := by
        intro hxo; subst hxo
        have : s.refs.contains x = true := by simpa using hx
        rw [this] at hr; exact absurd hr (by simp)
      refine ⟨k', ?_⟩
      exact (List.mem_erase_of_ne (by intro h; injection h with _ h2; exact hxo h2)).2 hk'

end Photon.ObjLog

namespace Photon.ObjLog
theorem run_inv (evs : List Ev) : ∀ (s s' : St), Inv s → run s evs = .ok s' → Inv s' := by
  induction evs with
  | nil => intro s s' hi h; simp only [run] at h; injection h with h; subst h; exact hi
  | cons e es ih =>
    intro s s' hi h
    simp only [run] at h
    cases hs : step s e with
    | error m => rw [hs] at h; exact absurd h (by simp)
    | ok s1 =>
      rw [hs] at h
      obtain ⟨hp, he⟩ := step_ok s s1 e hs
      exact ih s1 s' (by rw [he]; exact eff_inv s e hi hp) h

/-- **C19 (several vCPUs), a referenced object is live** in every state reached by an accepted history of a concurrent run. -/
theorem C19_mv_referenced_is_live (evs : List Ev) (s : St) (h : run {} evs = .ok s) : ∀ o ∈ s.refs, ∃ k, (k, o) ∈ s.live :=
  run_inv evs {} s (by intro o ho; simp at ho) h

example : (run {} [.ctorBegin 1, .ctorEnd 1 7, .acquired 1 7, .acquired 1 7, .releasing 1 7, .releasing 1 7, .destroyed 1 7, .ctorBegin 1, .ctorEnd 1 0]).isOk = true := by decide
example : (run {} [.ctorBegin 1, .ctorEnd 1 7, .acquired 1 7, .destroyed 1 7]).isOk = false := by decide
example : (run {} [.ctorBegin 1, .ctorBegin 1]).isOk = false := by decide
end Photon.ObjLog
