import Photon.Model.Path
/-!
# C20 — Sub-filesystem: no path reaches outside the base directory

Model: `Photon/Model/Path.lean` (= `fs/path.cpp` `Path::level_valid`, `fs/subfs.cpp` `PathCat`).
-/
namespace Photon.Path

/-! ### helper lemmas -/

theorem levelStep_spec (d : Nat) (c : Comp) :
    levelStep (d : Int) c =
      if c = [] ∨ c = ['.'] then some (d : Int)
      else if c = ['.', '.'] then (match d with | 0 => none | d' + 1 => some (d' : Int))
      else some ((d + 1 : Nat) : Int) := by
  unfold levelStep
  match c with
  | [] => simp
  | [x] => by_cases hx : x = '.' <;> simp [hx]
  | [x, y] =>
    by_cases hx : x = '.' <;> by_cases hy : y = '.' <;> simp [hx, hy]
    cases d with
    | zero => simp
    | succ d' => simp
  | x :: y :: z :: r => simp

theorem levelLoop_eq (cs : List Comp) : ∀ d : Nat, levelLoop (d : Int) cs = staysInsideFrom d cs := by
  induction cs with
  | nil => intro d; rfl
  | cons c cs ih =>
    intro d
    unfold levelLoop staysInsideFrom
    rw [levelStep_spec]
    by_cases h1 : c = [] ∨ c = ['.']
    · simp only [h1, if_true]; exact ih d
    · simp only [h1, if_false]
      by_cases h2 : c = ['.', '.']
      · simp only [h2, if_true]
        cases d with
        | zero => rfl
        | succ d' => exact ih d'
      · simp only [h2, if_false]; exact ih (d + 1)

theorem levelValid_eq (p : List Char) : levelValid p = staysInside (comps p) :=
  levelLoop_eq (comps p) 0

/-! ### property theorems -/

/-- **C20, no escape.** Whatever `PathCat` forwards is exactly `base ++ path`, and the walk over
    the path's components never goes above the base: every path string, every base. -/
theorem C20_no_escape (base p q : List Char) (hb : base ≠ []) (h : pathCat base p = some q) :
    q = base ++ p ∧ staysInside (comps p) = true := by
  unfold pathCat at h
  have hbl : ¬ base.length = 0 := by
    intro h0; exact hb (List.eq_nil_of_length_eq_zero h0)
  simp only [hbl, if_false] at h
  split at h
  · exact absurd h (by simp)
  · split at h
    · next hv =>
      rw [levelValid_eq] at hv
      exact ⟨(Option.some.inj h).symm, hv⟩
    · exact absurd h (by simp)

/-- **C20, legal paths are accepted.** A path whose every prefix stays at or below the base, and
    which fits the buffer, is forwarded unchanged apart from the base prefix. -/
theorem C20_accepts_legal (base p : List Char) (hb : base ≠ [])
    (hl : p.length + base.length < pathMax - 2) (h : staysInside (comps p) = true) :
    pathCat base p = some (base ++ p) := by
  unfold pathCat
  have hbl : ¬ base.length = 0 := by
    intro h0; exact hb (List.eq_nil_of_length_eq_zero h0)
  have hl' : ¬ (p.length + base.length ≥ pathMax - 2) := by omega
  simp only [hbl, if_false, hl', levelValid_eq, h, if_true]

/-- `PathCat` rejects exactly the escaping and the over-long paths -/
theorem C20_reject_iff (base p : List Char) (hb : base ≠ []) :
    pathCat base p = none ↔ (p.length + base.length ≥ pathMax - 2 ∨ staysInside (comps p) = false) := by
  unfold pathCat
  have hbl : ¬ base.length = 0 := by
    intro h0; exact hb (List.eq_nil_of_length_eq_zero h0)
  simp only [hbl, if_false, levelValid_eq]
  by_cases h1 : p.length + base.length ≥ pathMax - 2
  · simp [h1]
  · by_cases h2 : staysInside (comps p) = true
    · simp [h1, h2]
    · simp [h1, h2]

/-! ### what "stays inside" means for lexical resolution -/

/-- a walk that never goes above its start resolves, and resolution only ever pushes and pops
    *above* the starting stack `st` — the base's own directories are never popped -/
theorem resolve_of_staysInside (cs : List Comp) :
    ∀ (d : Nat) (top st : List Comp), top.length = d → staysInsideFrom d cs = true →
      ∃ r, resolveFrom (top ++ st) cs = some (r ++ st) := by
  induction cs with
  | nil => intro d top st _ _; exact ⟨top, rfl⟩
  | cons c cs ih =>
    intro d top st hd h
    unfold staysInsideFrom at h
    unfold resolveFrom
    by_cases h1 : c = [] ∨ c = ['.']
    · simp only [h1, if_true] at h ⊢; exact ih d top st hd h
    · simp only [h1, if_false] at h ⊢
      by_cases h2 : c = ['.', '.']
      · simp only [h2, if_true] at h ⊢
        cases top with
        | nil => simp at hd; subst hd; simp at h
        | cons t top' =>
          simp at hd; subst hd
          exact ih _ top' st rfl h
      · simp only [h2, if_false] at h ⊢
        have := ih (d + 1) (c :: top) st (by simp [hd]) h
        simpa using this

/-- conversely, a walk that goes above its start pops the base (or fails) -/
theorem not_staysInside_escapes (cs : List Comp) :
    ∀ (d : Nat) (top : List Comp), top.length = d → staysInsideFrom d cs = false →
      resolveFrom top cs = none := by
  induction cs with
  | nil => intro d top _ h; simp [staysInsideFrom] at h
  | cons c cs ih =>
    intro d top hd h
    unfold staysInsideFrom at h
    unfold resolveFrom
    by_cases h1 : c = [] ∨ c = ['.']
    · simp only [h1, if_true] at h ⊢; exact ih d top hd h
    · simp only [h1, if_false] at h ⊢
      by_cases h2 : c = ['.', '.']
      · simp only [h2, if_true] at h ⊢
        cases top with
        | nil => rfl
        | cons t top' =>
          simp at hd; subst hd
          exact ih _ top' rfl h
      · simp only [h2, if_false] at h ⊢
        exact ih (d + 1) (c :: top) (by simp [hd]) h

theorem resolveFrom_append (xs ys : List Comp) : ∀ st,
    resolveFrom st (xs ++ ys) = (resolveFrom st xs).bind (fun s => resolveFrom s ys) := by
  induction xs with
  | nil => intro st; rfl
  | cons c cs ih =>
    intro st
    simp only [List.cons_append, resolveFrom]
    by_cases h1 : c = [] ∨ c = ['.']
    · simp only [h1, if_true]; exact ih st
    · simp only [h1, if_false]
      by_cases h2 : c = ['.', '.']
      · simp only [h2, if_true]
        cases st with
        | nil => rfl
        | cons t st' => exact ih st'
      · simp only [h2, if_false]; exact ih _

/-- components of a concatenation split at a slash -/
theorem compsAux_slash_append (b p : List Char) : ∀ cur,
    compsAux (b ++ '/' :: p) cur = compsAux (b ++ ['/']) cur ++ compsAux p [] := by
  induction b with
  | nil =>
    intro cur
    simp only [List.nil_append, compsAux, if_true]
    by_cases hc : cur = [] <;> simp [hc]
  | cons c b ih =>
    intro cur
    simp only [List.cons_append, compsAux]
    by_cases hs : c = '/'
    · simp only [hs, if_true]
      by_cases hc : cur = []
      · simp only [hc, if_true]; exact ih []
      · simp only [hc, if_false, List.cons_append]; rw [ih []]
    · simp only [hs, if_false]; exact ih (c :: cur)

/-- **C20, the forwarded path resolves inside the base.** If the base directory (which `init`
    terminates with '/') resolves lexically to the directory stack `stB`, then every forwarded path
    resolves to a stack that still has `stB` as its bottom: the result is at or below the base. -/
theorem C20_forwarded_inside (b p q : List Char) (stB : List Comp)
    (hB : resolveFrom [] (comps (b ++ ['/'])) = some stB)
    (h : pathCat (b ++ ['/']) p = some q) :
    ∃ r, resolveFrom [] (comps q) = some (r ++ stB) := by
  obtain ⟨hq, hin⟩ := C20_no_escape (b ++ ['/']) p q (by simp) h
  subst hq
  have hsplit : comps (b ++ ['/'] ++ p) = comps (b ++ ['/']) ++ comps p := by
    unfold comps
    have : b ++ ['/'] ++ p = b ++ '/' :: p := by simp
    rw [this]; exact compsAux_slash_append b p []
  rw [hsplit, resolveFrom_append, hB]
  obtain ⟨r, hr⟩ := resolve_of_staysInside (comps p) 0 [] stB rfl hin
  exact ⟨r, by simpa using hr⟩

/-- and a rejected (non over-long) path is one whose own resolution climbs above the base -/
theorem C20_rejected_escapes (base p : List Char) (hb : base ≠ [])
    (hl : p.length + base.length < pathMax - 2) (h : pathCat base p = none) :
    resolveFrom [] (comps p) = none := by
  have := (C20_reject_iff base p hb).mp h
  rcases this with h1 | h2
  · omega
  · exact not_staysInside_escapes (comps p) 0 [] rfl h2

/-! ### non-vacuity and regressions -/

example : pathCat "/base/".toList "a/../b".toList = some "/base/a/../b".toList := by decide
example : pathCat "/base/".toList "x/../../y".toList = none := by decide
example : pathCat "/base/".toList ".a/..".toList = some "/base/.a/..".toList := by decide
example : comps "//a/./b//".toList = ["a".toList, ".".toList, "b".toList] := by decide
example : resolveFrom [] (comps "/base/a/../b".toList) = some ["b".toList, "base".toList] := by decide
/-- regression for finding F7 (repaired): before the repair ordinary names were not counted as a
    level and `a/../b` was refused although every prefix stays inside the base -/
example : staysInside (comps "a/../b".toList) = true ∧ levelValid "a/../b".toList = true := by decide

end Photon.Path
