"""Shared plumbing for the PhotonLibOS verification checks.

Every check is `check.py <Cxx> <quick|thorough>`; it
  1. builds the Lean library + driver and audits the property theorems (proof link),
  2. builds the C++ harness from /repo's *current working tree*,
  3. runs harness and Lean driver on the same inputs and diffs (correspondence link),
  4. runs implementation-side oracles, classifies, writes evidence, prints VIOLATION lines.
"""
import fcntl
import hashlib
import json
import os
import random
import re
import shutil
import subprocess
import sys
import time

VERIF = os.path.dirname(os.path.dirname(os.path.abspath(__file__)))
REPO = os.environ.get("VERIF_REPO", "/repo")
LEAN = os.path.join(VERIF, "lean")
SCRATCH = os.environ.get("VERIF_SCRATCH", "/var/tmp/photon-verif")
DRIVER = os.path.join(LEAN, ".lake", "build", "bin", "driver")
ALLOWED_AXIOMS = {"propext", "Classical.choice", "Quot.sound"}
FORBIDDEN = re.compile(r"\b(sorry|admit|native_decide|bv_decide|implemented_by|unsafe|maxHeartbeats\s+0)\b|^\s*axiom\s")

TRUSTED_BASE = [
    "Lean 4.33.0 kernel (lake build; optional leanchecker re-check in the thorough tier)",
    "axioms: at most propext, Classical.choice, Quot.sound (audited by #print axioms on every run); no native_decide, no bv_decide, no user axioms, no sorry",
    "hand-written Lean model; tie to the code = differential run of the model's executable definitions (compiled `driver`) against the real C++ on the same inputs",
    "g++ 12, libstdc++, ASan/UBSan, the harness and generators in /verif/harness and /verif/checks",
]


def sh(cmd, cwd=None, timeout=None, input=None, env=None):
    p = subprocess.run(cmd, cwd=cwd, timeout=timeout, input=input, env=env,
                       stdout=subprocess.PIPE, stderr=subprocess.STDOUT, text=True,
                       shell=isinstance(cmd, str))
    return p.returncode, p.stdout


class Lock:
    def __init__(self, name):
        os.makedirs(SCRATCH, exist_ok=True)
        self.path = os.path.join(SCRATCH, name + ".lock")

    def __enter__(self):
        self.f = open(self.path, "w")
        fcntl.flock(self.f, fcntl.LOCK_EX)
        return self

    def __exit__(self, *a):
        fcntl.flock(self.f, fcntl.LOCK_UN)
        self.f.close()


# ------------------------------------------------------------------ Lean side

def lean_build():
    """lake build (library + driver). Returns (ok, log)."""
    with Lock("lake"):
        rc, out = sh(["lake", "build"], cwd=LEAN, timeout=3600)
    return rc == 0 and os.path.exists(DRIVER), out


def lean_sources():
    res = []
    for root, _, files in os.walk(LEAN):
        if ".lake" in root:
            continue
        for f in files:
            if f.endswith(".lean"):
                res.append(os.path.join(root, f))
    return sorted(res)


def strip_comments(text):
    # remove /- ... -/ (nested) and -- line comments
    out = []
    i, depth = 0, 0
    while i < len(text):
        if text.startswith("/-", i):
            depth += 1
            i += 2
        elif depth and text.startswith("-/", i):
            depth -= 1
            i += 2
        elif depth:
            if text[i] == "\n":
                out.append("\n")
            i += 1
        elif text.startswith("--", i):
            while i < len(text) and text[i] != "\n":
                i += 1
        else:
            out.append(text[i])
            i += 1
    return "".join(out)


def grep_forbidden():
    hits = []
    for p in lean_sources():
        if "/Audit/" in p:
            continue
        body = strip_comments(open(p).read())
        for n, line in enumerate(body.split("\n"), 1):
            if FORBIDDEN.search(line):
                hits.append("%s:%d: %s" % (os.path.relpath(p, LEAN), n, line.strip()))
    return hits


def lean_audit(prop):
    """Runs Audit/<prop>.lean (`#print axioms` per obligation).
    Returns dict(obligations=[...], discharged=[...], problems=[...], axioms={thm: [...]})."""
    audit = os.path.join(LEAN, "Audit", prop + ".lean")
    names = re.findall(r"^#print axioms\s+(\S+)", open(audit).read(), re.M)
    with Lock("lake"):
        rc, out = sh(["lake", "env", "lean", audit], cwd=LEAN, timeout=1800)
    axioms, problems = {}, []
    # "'name' depends on axioms: [a, b]"  /  "'name' does not depend on any axioms"
    flat = re.sub(r"\s+", " ", out)
    for m in re.finditer(r"'([^']+)' depends on axioms: \[([^\]]*)\]", flat):
        axioms[m.group(1)] = [a.strip() for a in m.group(2).split(",") if a.strip()]
    for m in re.finditer(r"'([^']+)' does not depend on any axioms", flat):
        axioms[m.group(1)] = []
    discharged = []
    for n in names:
        full = [k for k in axioms if k == n or k.endswith("." + n)]
        if not full:
            problems.append("theorem %s: not checked (%s)" % (n, "lean error" if rc else "missing"))
            continue
        bad = [a for a in axioms[full[0]] if a not in ALLOWED_AXIOMS]
        if bad:
            problems.append("theorem %s depends on non-standard axioms %s" % (n, bad))
        else:
            discharged.append(n)
    if rc != 0:
        problems.append("audit file failed to elaborate: " + out[-1500:])
    for h in grep_forbidden():
        problems.append("forbidden token: " + h)
    return dict(obligations=names, discharged=discharged, problems=problems, axioms=axioms)


def leanchecker(module):
    with Lock("lake"):
        rc, out = sh(["lake", "env", "leanchecker", module], cwd=LEAN, timeout=3600)
    return rc == 0, out[-2000:]


# ------------------------------------------------------------------ C++ side

def tree_fingerprint(paths):
    h = hashlib.sha256()
    for p in paths:
        full = os.path.join(REPO, p) if not os.path.isabs(p) else p
        if os.path.isdir(full):
            for root, _, files in sorted(os.walk(full)):
                for f in sorted(files):
                    fp = os.path.join(root, f)
                    h.update(fp.encode())
                    try:
                        h.update(open(fp, "rb").read())
                    except OSError:
                        pass
        elif os.path.exists(full):
            h.update(full.encode())
            h.update(open(full, "rb").read())
    return h.hexdigest()[:16]


HFUN_FLAGS = ["-std=c++17", "-O1", "-g", "-fsanitize=address,undefined", "-fno-sanitize-recover=all",
              "-DNDEBUG", "-I" + os.path.join(REPO, "include"), "-I" + os.path.join(VERIF, "harness")]


REPO_SRC = ["common", "fs", "io", "net", "rpc", "thread", "photon.cpp", "photon.h", "CMakeLists.txt", "CMake"]


def repo_fingerprint():
    """content hash of every source file of /repo's working tree (a harness is recompiled whenever it changes)"""
    return tree_fingerprint(REPO_SRC)


def compile_harness(name, sources, extra=(), flags=None, deps=()):
    """Compile a harness against /repo's current working tree. Returns (binary|None, log).
    Recompiles whenever any source file of /repo, the harness, or the flags changed; binaries live under SCRATCH."""
    flags = list(HFUN_FLAGS if flags is None else flags)
    srcs = [s if os.path.isabs(s) else os.path.join(VERIF, "harness", s) for s in sources]
    hdrs = [os.path.join(VERIF, "harness", f) for f in sorted(os.listdir(os.path.join(VERIF, "harness"))) if f.endswith(".h")]
    key = hashlib.sha256((" ".join(flags + list(extra)) + tree_fingerprint(srcs + hdrs) + repo_fingerprint()).encode()).hexdigest()[:16]
    bdir = os.path.join(SCRATCH, "bin")
    os.makedirs(bdir, exist_ok=True)
    out = os.path.join(bdir, "%s-%s" % (name, key))
    with Lock("cc-" + name):
        if os.path.exists(out):
            return out, "cached"
        for old in os.listdir(bdir):
            if old.startswith(name + "-"):
                try:
                    os.remove(os.path.join(bdir, old))
                except OSError:
                    pass
        tmp = out + ".tmp%d" % os.getpid()
        rc, log = sh(["g++"] + flags + srcs + list(extra) + ["-o", tmp], timeout=1800)
        if rc != 0:
            return None, log
        os.rename(tmp, out)
    return out, log


def run_lines(binary, args, lines, timeout=600, env=None):
    """Feed lines to a process; returns (rc, [output lines], stderr-ish tail)."""
    data = "\n".join(lines) + "\n"
    e = dict(os.environ)
    e.setdefault("ASAN_OPTIONS", "detect_leaks=0:abort_on_error=0:detect_stack_use_after_return=0")
    e.setdefault("UBSAN_OPTIONS", "print_stacktrace=1")
    if env:
        e.update(env)
    try:
        p = subprocess.run([binary] + list(args), input=data, stdout=subprocess.PIPE, stderr=subprocess.PIPE,
                           text=True, timeout=timeout, env=e, errors="replace")
    except subprocess.TimeoutExpired as ex:
        out = (ex.stdout or b"")
        if isinstance(out, bytes):
            out = out.decode(errors="replace")
        return -999, out.split("\n"), "timeout after %ss" % timeout
    out = p.stdout.split("\n")
    if out and out[-1] == "":
        out.pop()
    return p.returncode, out, p.stderr[-4000:]


def run_driver(model, lines, timeout=600):
    return run_lines(DRIVER, [model], lines, timeout=timeout)


def first_diff(a, b):
    n = min(len(a), len(b))
    for i in range(n):
        if a[i] != b[i]:
            return i
    if len(a) != len(b):
        return n
    return None


# ------------------------------------------------------------------ reporting

# what harness/watchdog.h reported during this run: windows without progress in which the machine did not run some thread of the harness
# (they do not count towards a `result hung` verdict); filled by checks/hsim.py, written into the evidence
WATCHDOG = {}


class Report:
    """Collects the result of one check run and writes evidence/replays."""

    def __init__(self, prop, tier, seed):
        self.prop, self.tier, self.seed = prop, tier, seed
        self.t0 = time.time()
        self.violations = []          # (replay_path, no_failing_input_found)
        self.known = []               # strings
        self.cov = dict(evaluations=0, distinct_nontrivial=0, samples=[], traces_validated_against_impl=0)
        self.assumptions = []
        self.notes = []
        self._distinct = set()
        os.makedirs(os.path.join(VERIF, "replays"), exist_ok=True)
        os.makedirs(os.path.join(VERIF, "evidence"), exist_ok=True)

    def count(self, n=1):
        self.cov["evaluations"] += n

    def distinct(self, key):
        self._distinct.add(key)

    def sample(self, s, cap=6):
        if len(self.cov["samples"]) < cap:
            self.cov["samples"].append(s)

    def violation(self, kind, detail, no_input=False):
        """kind: 'counterexample' | 'unverified'. detail: dict (goes into the replay file)."""
        n = len(self.violations)
        path = os.path.join(VERIF, "replays", "%s-%s-%d-%d.json" % (self.prop, self.tier, self.seed, n))
        d = dict(property=self.prop, kind=kind, tier=self.tier, seed=self.seed)
        d.update(detail)
        with open(path, "w") as f:
            json.dump(d, f, indent=1, default=str)
        self.violations.append((path, no_input))
        print("VIOLATION property=%s replay=%s%s" % (self.prop, path, " no-failing-input-found" if no_input else ""))
        sys.stdout.flush()

    def known_finding(self, text):
        self.known.append(text)
        print("KNOWN-FINDING: property=%s %s" % (self.prop, text))
        sys.stdout.flush()

    def proof(self, audit, checker_cmd):
        self.cov["obligations"] = len(audit["obligations"])
        self.cov["discharged"] = len(audit["discharged"])
        self.cov["checker_cmd"] = checker_cmd
        self.cov["trusted_base"] = list(TRUSTED_BASE)
        self.cov["theorems"] = audit["obligations"]
        self.cov["axioms"] = {k: v for k, v in audit["axioms"].items()}
        if audit["problems"] or len(audit["obligations"]) != len(audit["discharged"]) or not audit["obligations"]:
            self.violation("unverified", dict(broken="proof obligations", problems=audit["problems"],
                                              obligations=audit["obligations"], discharged=audit["discharged"]),
                           no_input=True)

    def finish(self, level="proof"):
        self.cov["distinct_nontrivial"] = len(self._distinct)
        if WATCHDOG:
            self.cov["watchdog"] = dict(WATCHDOG)
        ev = dict(property_id=self.prop, tier=self.tier, seed=self.seed, level=level, coverage=self.cov,
                  assumptions=self.assumptions, wall_s=round(time.time() - self.t0, 2),
                  violations=len(self.violations), known_findings_replayed=self.known, notes=self.notes)
        with open(os.path.join(VERIF, "evidence", self.prop + ".json"), "w") as f:
            json.dump(ev, f, indent=1, default=str)
        return 1 if self.violations else 0


def known_findings(prop):
    p = os.path.join(VERIF, "known_findings.json")
    if not os.path.exists(p):
        return []
    return [k for k in json.load(open(p)).get("findings", []) if k["property"] == prop and k.get("status") == "known"]


def rng(seed, salt=""):
    return random.Random("%s/%s" % (seed, salt))


# ------------------------------------------------------------------ libphoton from the working tree

PHOTON_BUILD = os.path.join(SCRATCH, "build")


def build_photon():
    """Configure (once) and (re)build libphoton.so from /repo's current working tree with -DPHOTON_VERIF.
    ninja rebuilds exactly the objects whose sources changed. Returns (libdir|None, log)."""
    with Lock("photon-build"):
        os.makedirs(PHOTON_BUILD, exist_ok=True)
        if not os.path.exists(os.path.join(PHOTON_BUILD, "build.ninja")):
            rc, out = sh(["cmake", "-G", "Ninja", "-S", REPO, "-B", PHOTON_BUILD, "-DCMAKE_BUILD_TYPE=RelWithDebInfo",
                          "-DPHOTON_BUILD_TESTING=OFF", "-DCMAKE_CXX_FLAGS=-Wno-error -DPHOTON_VERIF"], timeout=1800)
            if rc != 0:
                shutil.rmtree(PHOTON_BUILD, ignore_errors=True)
                return None, out
        rc, out = sh(["ninja", "-C", PHOTON_BUILD, "photon_shared"], timeout=3600)
        lib = os.path.join(PHOTON_BUILD, "output")
        if rc != 0 or not os.path.exists(os.path.join(lib, "libphoton.so")):
            return None, out
        return lib, out


def photon_link_flags(libdir):
    return ["-L" + libdir, "-lphoton", "-Wl,-rpath," + libdir, "-lpthread", "-ldl"]
