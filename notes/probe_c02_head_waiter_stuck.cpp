#include <photon/photon.h>
#include <photon/thread/thread11.h>
#include <photon/common/alog.h>
#include <cstdio>
#include <cerrno>
using namespace photon;
int main() {
  set_log_output_level(ALOG_ERROR+1);
  photon::init(INIT_EVENT_DEFAULT, INIT_IO_NONE);
  semaphore sem(0);
  bool w1_done=false, w2_done=false;
  auto W1 = thread_create11([&]{ int r = sem.wait(3, 2*1000*1000); printf("W1 wait(3) -> %d errno=%d\n", r, r?errno:0); w1_done=true; });
  auto W2 = thread_create11([&]{ int r = sem.wait(1, 2*1000*1000); printf("W2 wait(1) -> %d errno=%d\n", r, r?errno:0); w2_done=true; });
  thread_enable_join(W1); thread_enable_join(W2);
  thread_yield(); thread_yield();          // both park: queue [W1(3), W2(1)], count 0
  sem.signal(3);                           // wakes W1 only (W2's demand not covered after W1's 3)
  int r = sem.wait(2);                     // a third party takes 2 of the 3 tokens before W1 runs
  printf("main wait(2) -> %d, count now %lu\n", r, (unsigned long)sem.count());
  thread_usleep(500*1000);                 // let everybody run; W1 finds 1 < 3 and parks again behind W2
  printf("after 500ms: count=%lu W1 done=%d W2 done=%d   <-- head waiter W2 needs 1, count is 1\n", (unsigned long)sem.count(), w1_done, w2_done);
  thread_join((join_handle*)W1); thread_join((join_handle*)W2);
  photon::fini();
}
