#include <photon/photon.h>
#include <photon/thread/thread11.h>
#include <photon/common/alog.h>
#include <cstdio>
#include <cerrno>
using namespace photon;
int main() {
  set_log_output_level(ALOG_ERROR);
  photon::init(INIT_EVENT_DEFAULT, INIT_IO_NONE);
  auto T = thread_create11([&]{
      auto t0 = photon::now;
      int r = thread_usleep(20*1000); int e = errno;
      printf("T: first usleep(20ms) -> %d errno=%d elapsed=%lu us\n", r, e, (unsigned long)(photon::now - t0));
      t0 = photon::now;
      r = thread_usleep(20*1000); e = errno;
      printf("T: second usleep(20ms) -> %d errno=%d elapsed=%lu us\n", r, e, (unsigned long)(photon::now - t0));
  });
  thread_enable_join(T);
  thread_interrupt(T, EINTR);   // T is READY, has not run yet
  thread_join((join_handle*)T);
  // scenario 2: thread woken by timeout (READY) then interrupted before it runs
  photon::fini();
}
