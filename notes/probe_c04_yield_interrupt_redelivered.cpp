#include <photon/photon.h>
#include <photon/thread/thread11.h>
#include <photon/common/alog.h>
#include <cstdio>
#include <cerrno>
using namespace photon;
int main() {
  set_log_output_level(ALOG_ERROR+1);
  photon::init(INIT_EVENT_DEFAULT, INIT_IO_NONE);
  thread* A = nullptr; bool go = false;
  A = thread_create11([&]{
      int r = thread_yield();                 // B interrupts us while we are READY inside this yield
      printf("A: thread_yield -> %d\n", r);
      auto t0 = photon::now; errno = 0;
      r = thread_usleep(10*1000); int e = errno;
      printf("A: next usleep(10ms) -> %d errno=%d elapsed=%lu us\n", r, e, (unsigned long)(photon::now - t0));
      t0 = photon::now; errno = 0; r = thread_usleep(10*1000); e = errno;
      printf("A: third usleep(10ms) -> %d errno=%d elapsed=%lu us\n", r, e, (unsigned long)(photon::now - t0));
  });
  thread_enable_join(A);
  auto B = thread_create11([&]{ thread_interrupt(A, EINTR); });
  thread_enable_join(B);
  thread_join((join_handle*)A); thread_join((join_handle*)B);
  photon::fini();
}
