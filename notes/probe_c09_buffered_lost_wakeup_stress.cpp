// probe for F3: buffered go-channel lost wake-up across two vCPUs (uncontrolled stress)
#include <photon/photon.h>
#include <photon/thread/go.h>
#include <photon/common/alog.h>
#include <atomic>
#include <thread>
#include <cstdio>
#include <chrono>
using namespace photon;
int main(int argc, char** argv) {
  set_log_output_level(ALOG_ERROR+1);
  long N = argc>1? atol(argv[1]) : 3000000; size_t cap = argc>2? atoi(argv[2]) : 1;
  channel<int> ch(cap);
  std::atomic<long> sent{0}, recvd{0}; std::atomic<bool> done_s{false}, done_r{false};
  std::thread ts([&]{ photon::init(INIT_EVENT_DEFAULT, INIT_IO_NONE); for (long i=0;i<N;i++){ if(!ch.send((int)i)) break; sent++; } done_s=true; photon::fini(); });
  std::thread tr([&]{ photon::init(INIT_EVENT_DEFAULT, INIT_IO_NONE); int v; for (long i=0;i<N;i++){ if(!ch.recv(v)) break; recvd++; } done_r=true; photon::fini(); });
  long last_s=-1, last_r=-1; int stalled=0;
  while (!(done_s && done_r)) { std::this_thread::sleep_for(std::chrono::milliseconds(300)); long s=sent, r=recvd; if (s==last_s && r==last_r) stalled++; else stalled=0; last_s=s; last_r=r;
    if (stalled>=10) { printf("STALLED for 3s: sent=%ld received=%ld in channel=%zu capacity=%zu -> a party is parked although it could proceed\n", s, r, ch.size(), cap); fflush(stdout); _Exit(2); } }
  printf("completed: sent=%ld received=%ld\n", (long)sent, (long)recvd); ts.join(); tr.join();
}
