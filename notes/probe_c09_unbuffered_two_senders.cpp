#include <photon/photon.h>
#include <photon/thread/thread11.h>
#include <photon/thread/go.h>
#include <cstdio>
#include <vector>
using namespace photon;
int main() {
  photon::init(INIT_EVENT_DEFAULT, INIT_IO_NONE);
  channel<int> ch;  // unbuffered
  std::vector<int> got; bool r1=false, r2=false; bool s1=false,s2=false;
  auto S1 = thread_create11([&]{ s1 = ch.send(1); printf("S1 send -> %d\n", s1); });
  thread_enable_join(S1);
  thread_yield(); // S1 runs, blocks waiting for receiver
  auto R = thread_create11([&]{ int v=-1; bool ok = ch.recv(v); printf("R recv -> %d v=%d\n", ok, v); if (ok) got.push_back(v); });
  thread_enable_join(R);
  auto S2 = thread_create11([&]{ s2 = ch.send(2); printf("S2 send -> %d\n", s2); });
  thread_enable_join(S2);
  // let them run
  for (int i=0;i<20;i++) thread_yield();
  // second receiver with timeout to pick leftover if any
  int v=-1; bool ok = ch.recv(v, 200*1000); printf("main recv -> %d v=%d\n", ok, v);
  if (ok) got.push_back(v);
  thread_join((join_handle*)S1); thread_join((join_handle*)R); thread_join((join_handle*)S2);
  printf("sends ok: s1=%d s2=%d; received:", s1, s2); for (auto x: got) printf(" %d", x); printf("\n");
  photon::fini();
}
