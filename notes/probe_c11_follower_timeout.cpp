// Probe: OOO engine, follower times out while the leader is collecting the follower's response.
#include <photon/thread/thread.h>
#include <photon/thread/thread11.h>
#include <photon/io/fd-events.h>
#include <photon/common/alog.h>
#include <photon/rpc/out-of-order-execution.h>
#include <cstdio>
#include <cstring>
#include <cerrno>
#include <time.h>
#include <deque>
using namespace photon; using namespace photon::rpc;
static uint64_t vclock_us = 1000000;
extern "C" int clock_gettime(clockid_t, struct timespec* ts) { ts->tv_sec = vclock_us/1000000; ts->tv_nsec=(vclock_us%1000000)*1000; return 0; }
struct VEngine : public MasterEventEngine {
  int wait_for_fd(int, uint32_t, Timeout) override { errno = ENOSYS; return -1; }
  ssize_t wait_and_fire_events(uint64_t t) override { if (!t) return 0; if (t>10*1024*1024) t=10*1024*1024; vclock_us += t; photon::now = vclock_us; return 0; }
  int cancel_wait() override { return 0; }
};
struct Mock {
  std::deque<uint64_t> wire;   // tags of responses "on the wire", in arrival order
  int issue(OutOfOrderContext* a) { wire.push_back(a->tag); return 0; }
  int completion(OutOfOrderContext* a) {           // "read header": takes 1ms, returns next tag on the wire
    while (wire.empty()) thread_usleep(1000);
    thread_usleep(1000);
    a->tag = wire.front(); wire.pop_front(); return 0; }
  uint64_t slow_tag = 0;
  int collect(OutOfOrderContext* a) {              // "read body": slow for one chosen tag
    printf("  collect begin for ctx=%p (now=%lu)\n", a, (unsigned long)photon::now);
    if (a->tag == slow_tag) thread_usleep(50*1000);
    printf("  collect end   for ctx=%p (now=%lu)\n", a, (unsigned long)photon::now);
    return 7; }
};
int main() {
  set_log_output_level(ALOG_ERROR + 1);
  vcpu_init(); fd_events_init(new VEngine); photon::now = vclock_us;
  auto eng = new_ooo_execution_engine(); Mock mock;
  // contexts live in heap buffers so that we can canary them after the call has returned
  auto mk = [&](uint64_t timeout_us) { auto c = new OutOfOrderContext; c->engine = eng; c->do_issue.bind(&mock, &Mock::issue);
     c->do_completion.bind(&mock, &Mock::completion); c->do_collect.bind(&mock, &Mock::collect); c->timeout = Timeout(timeout_us); return c; };
  OutOfOrderContext *L = mk(10*1000*1000), *F = mk(20*1000);   // follower deadline 20ms
  bool f_returned = false; unsigned char canary[sizeof(OutOfOrderContext)];
  auto TL = thread_create11([&]{ int r = ooo_issue_wait(*L); printf("leader   call -> %d errno=%d\n", r, errno); });
  thread_enable_join(TL);
  thread_yield();            // leader issues tag1, becomes the reader
  auto TF = thread_create11([&]{ int r = ooo_issue_wait(*F); int e = errno; printf("follower call -> %d errno=%d (now=%lu)\n", r, e, (unsigned long)photon::now);
      f_returned = true; memset((void*)F, 0x00, sizeof(*F)); memcpy(canary, (void*)F, sizeof(*F)); });
  thread_enable_join(TF);
  thread_yield();
  mock.slow_tag = F->tag;    // follower's body is slow; wire order: leader's tag was pushed first, then follower's.
  // make follower's response arrive first: swap
  if (mock.wire.size() == 2) std::swap(mock.wire[0], mock.wire[1]);
  thread_join((join_handle*)TF); thread_join((join_handle*)TL);
  printf("follower context modified after its call returned: %s\n", memcmp(canary, (void*)F, sizeof(*F)) ? "YES (use-after-return)" : "no");
  printf("queue count at end: %d\n", ooo_get_queue_count(eng));
  fd_events_fini(); vcpu_fini();
}
