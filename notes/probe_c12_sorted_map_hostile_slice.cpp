#include <photon/rpc/serialize.h>
#include <photon/common/alog.h>
#include <cstdio>
#include <cstring>
#include <vector>
using namespace photon::rpc;
struct map_value : Message { int a = 0; photon::rpc::string b; char c = 0;
  map_value() = default; map_value(int a_, const char* b_, char c_) : a(a_), b(b_), c(c_) {}
  PROCESS_FIELDS(a, b, c); };
struct Msg : Message { int x = 5; sorted_map<photon::rpc::string, map_value> m; photon::rpc::string s; PROCESS_FIELDS(x, m, s); };
int main(int argc, char** argv) {
  set_log_output_level(ALOG_ERROR+1);
  Msg msg; sorted_map_factory<photon::rpc::string, map_value> f;
  map_value v1(1, "v1", (char)97), v2(2, "v2", (char)98); photon::rpc::string k1("k1"), k2("k2"); f.append(k1, v1); f.append(k2, v2);
  f.assign_to(&msg.m); msg.s.assign("hello");
  SerializerIOV ser; ser.serialize(msg);
  size_t total = ser.iov.sum();
  // flatten into an exact-size heap buffer (ASan red zones right after it)
  char* wire = (char*)malloc(total); ser.iov.memcpy_to(wire, total);
  printf("wire bytes: %zu\n", total);
  // hostile: the index is the first field on the wire (array of pair<slice,slice>): bump key slice offset of entry 0
  auto idx = (pair<slice, slice>*)wire;
  if (argc > 1) { idx[0].first.offset = 1 << 20; printf("corrupted index[0].key.offset\n"); }
  IOVector in; in.push_back(wire, total);
  DeserializerIOV des; auto* out = des.deserialize<Msg>(&in);
  printf("deserialize -> %p\n", (void*)out);
  if (!out) return 0;
  auto it = out->m.find(photon::rpc::string("k2"));
  printf("find done, at end=%d\n", it == out->m.end());
  free(wire);
}
