#include <photon/rpc/serialize.h>
#include <photon/common/alog.h>
#include <cstdio>
#include <cstring>
using namespace photon::rpc;
struct Msg : Message { int x = 5; photon::rpc::string s; buffer b; PROCESS_FIELDS(x, s, b); };
int main() {
  set_log_output_level(ALOG_ERROR+1);
  Msg msg; msg.s.assign("hello"); char payload[4] = {1,2,3,4}; msg.b.assign(payload, 4);
  SerializerIOV ser; ser.serialize(msg); size_t total = ser.iov.sum();
  char* wire = (char*)malloc(total); ser.iov.memcpy_to(wire, total);
  // body is the last sizeof(Msg) bytes; make the string length 0 and its pointer hostile, drop its 6 payload bytes
  Msg* body = (Msg*)(wire + total - sizeof(Msg));
  printf("on the wire: s._len=%zu s._ptr=%p\n", body->s._len, body->s._ptr);
  char* w2 = (char*)malloc(total - 6); memcpy(w2, wire + 6, total - 6);   // remove "hello\0"
  Msg* b2 = (Msg*)(w2 + total - 6 - sizeof(Msg)); b2->s._len = 0; b2->s._ptr = (void*)0x4141414141414141ULL;
  IOVector in; in.push_back(w2, total - 6);
  DeserializerIOV des; auto* out = des.deserialize<Msg>(&in);
  printf("deserialize -> %s\n", out ? "accepted" : "rejected");
  if (out) { printf("s.size()=%zu s.c_str()=%p  sv().size()=%zu  b.size()=%zu b[0]=%d\n", out->s.size(), (void*)out->s.c_str(), out->s.sv().size(), out->b.size(), ((char*)out->b.addr())[0]); }
}
