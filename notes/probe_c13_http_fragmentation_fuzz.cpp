// design-time probe for C13: http::Response over a scripted stream; body must not depend on fragmentation
#define protected public
#include <photon/net/http/message.h>
#undef protected
#include <photon/net/socket.h>
#include <photon/common/alog.h>
#include <photon/thread/thread.h>
#include <cstdio>
#include <cstring>
#include <string>
#include <vector>
#include <random>
using namespace photon; using namespace photon::net; using namespace photon::net::http;
static std::mt19937_64 rng(3); static size_t R(size_t n){ return n? rng()%n : 0; }
struct ScriptStream : public ISocketStream {
  std::string data; size_t pos=0; std::vector<size_t> cuts; size_t ci=0;   // cuts: sizes of successive recv results
  ssize_t recv(void* buf, size_t count, int flags=0) override { if (pos>=data.size()) return 0; size_t n = ci<cuts.size()? cuts[ci] : data.size()-pos; if (n>count) { if (ci<cuts.size()) cuts[ci]-=count; n=count; } else ci++; if (n>data.size()-pos) n=data.size()-pos; if (n==0) n=1<data.size()-pos?1:data.size()-pos; memcpy(buf,data.data()+pos,n); pos+=n; return n; }
  ssize_t recv(const struct iovec* iov, int iovcnt, int flags=0) override { return iovcnt? recv(iov[0].iov_base, iov[0].iov_len, flags) : 0; }
  ssize_t read(void* buf, size_t count) override { size_t got=0; while (got<count) { auto r=recv((char*)buf+got, count-got); if (r<=0) break; got+=r; } return got; }
  ssize_t readv(const struct iovec* iov, int iovcnt) override { ssize_t t=0; for (int i=0;i<iovcnt;i++){ auto r=read(iov[i].iov_base, iov[i].iov_len); if (r<0) return r; t+=r; if ((size_t)r<iov[i].iov_len) break; } return t; }
  ssize_t write(const void*, size_t c) override { return c; } ssize_t writev(const struct iovec*, int) override { return 0; }
  ssize_t send(const void*, size_t c, int=0) override { return c; } ssize_t send(const struct iovec*, int, int=0) override { return 0; }
  ssize_t sendfile(int, off_t, size_t) override { return -1; }
  int close() override { return 0; }
  Object* get_underlay_object(uint64_t=0) override { return nullptr; }
  int setsockopt(int,int,const void*,socklen_t) override { return 0; } int getsockopt(int,int,void*,socklen_t*) override { return 0; }
  int getsockname(EndPoint&) override { return -1; } int getpeername(EndPoint&) override { return -1; }
  int getsockname(char*, size_t) override { return -1; } int getpeername(char*, size_t) override { return -1; }
};
static int fails=0; static long cases=0;
#define CHECK(c, ...) do{ if(!(c)){ fails++; if(fails<12){printf("FAIL %s: ", #c); printf(__VA_ARGS__); printf("\n");} } }while(0)
static std::string hex(size_t n){ char b[32]; snprintf(b,sizeof b,"%zx",n); return b; }
int main(int argc,char**argv){
  set_log_output_level(ALOG_ERROR+1); vcpu_init();
  long iters = argc>1?atol(argv[1]):3000;
  for (long it=0; it<iters; it++) {
    int framing = R(3);          // 0 content-length, 1 chunked, 2 close-delimited
    std::string payload; size_t plen = R(4)==0 ? R(9000) : R(300); for (size_t i=0;i<plen;i++) payload.push_back('a'+R(26));
    std::string wire = "HTTP/1.1 200 OK\r\nX-A: b\r\n"; int nh=R(6); for (int i=0;i<nh;i++) wire += "H"+std::to_string(i)+": v"+std::to_string(R(1000))+"\r\n";
    if (framing==0) wire += "Content-Length: "+std::to_string(plen)+"\r\n\r\n"+payload;
    else if (framing==1) { wire += "Transfer-Encoding: chunked\r\n\r\n"; size_t p=0; while (p<plen) { size_t c = 1+R(R(3)==0?5000:40); if (c>plen-p) c=plen-p; wire += hex(c)+"\r\n"+payload.substr(p,c)+"\r\n"; p+=c; } wire += "0\r\n\r\n"; }
    else wire += "Connection: close\r\n\r\n"+payload;
    // several fragmentations of the same wire bytes
    for (int frag=0; frag<4; frag++) {
      cases++;
      ScriptStream ss; ss.data=wire; size_t rem=wire.size();
      if (frag==0) {} else if (frag==1) { while (rem) { ss.cuts.push_back(1); rem--; } } else { while (rem) { size_t c=1+R(frag==2?7:600); if (c>rem) c=rem; ss.cuts.push_back(c); rem-=c; } }
      std::vector<char> hb(32*1024); Response resp(hb.data(), (uint16_t)hb.size()); resp.reset(&ss, false);
      int r = resp.receive_header();
      CHECK(r==0, "receive_header -> %d (framing %d frag %d plen %zu)", r, framing, frag, plen); if (r) continue;
      CHECK(resp.status_code()==200, "status %d", resp.status_code());
      std::string got; char rb[4096]; int guard=0;
      while (guard++ < 100000) { size_t want = 1+R(frag==1?5:4000); ssize_t n = resp.read(rb, want); if (n<0) { CHECK(false,"body read error (framing %d frag %d plen %zu got %zu)",framing,frag,plen,got.size()); break; } if (n==0) break; got.append(rb,n); }
      CHECK(got==payload, "body mismatch framing=%d frag=%d plen=%zu got=%zu firstdiff=%zu", framing, frag, plen, got.size(), (size_t)(std::mismatch(got.begin(), got.begin()+std::min(got.size(),payload.size()), payload.begin()).first-got.begin()));
    }
  }
  printf("done, cases=%ld fails=%d\n", cases, fails);
  vcpu_fini();
}
