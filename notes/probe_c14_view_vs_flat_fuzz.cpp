// design-time probe: iovector_view vs flat byte-string reference (not part of the machinery)
#include <photon/common/iovector.h>
#include <cstdio>
#include <cstdlib>
#include <cstring>
#include <vector>
#include <string>
#include <random>
using namespace std;
typedef vector<unsigned char> Bytes;
static mt19937_64 rng(1);
static size_t R(size_t n) { return n ? rng() % n : 0; }
struct Vec { vector<unsigned char*> bufs; vector<size_t> sizes; vector<iovec> iov; 
  ~Vec(){ for (auto b: bufs) free(b);} };
static void mk(Vec& v, int n, size_t maxlen, unsigned char& ctr) {
  for (int i=0;i<n;i++){ size_t len = (R(4)==0)?0:R(maxlen+1); auto b=(unsigned char*)malloc(len?len:1);
    for(size_t j=0;j<len;j++) b[j]=ctr++; v.bufs.push_back(b); v.sizes.push_back(len); v.iov.push_back({b,len}); } }
static Bytes flat(const iovector_view& w){ Bytes r; for(int i=0;i<w.iovcnt;i++) r.insert(r.end(), (unsigned char*)w.iov[i].iov_base, (unsigned char*)w.iov[i].iov_base+w.iov[i].iov_len); return r; }
static int fails=0;
#define CHECK(c, ...) do{ if(!(c)){ fails++; if(fails<15){printf("FAIL %s: ", #c); printf(__VA_ARGS__); printf("\n");} } }while(0)
int main(int argc,char**argv){
  long iters = argc>1?atol(argv[1]):200000;
  for(long it=0; it<iters; it++){
    unsigned char ctr=1; Vec v; int n=R(6); mk(v,n,6,ctr);
    vector<iovec> work=v.iov; work.reserve(8); iovector_view w(work.data(), (int)work.size());
    Bytes F=flat(w); size_t total=F.size(); size_t req=R(total+4);
    int op=R(9);
    switch(op){
    case 0:{ size_t r=w.extract_front(req); size_t e=min(req,total); CHECK(r==e,"extract_front ret %zu exp %zu (n=%d total=%zu req=%zu)",r,e,n,total,req);
             Bytes G=flat(w); CHECK(G==Bytes(F.begin()+e,F.end()),"extract_front remainder"); break;}
    case 1:{ Bytes out(req+1,0xEE); size_t r=w.extract_front(req,out.data()); size_t e=min(req,total); CHECK(r==e,"extract_front(buf) ret %zu exp %zu",r,e);
             CHECK(memcmp(out.data(),F.data(),e)==0,"extract_front(buf) data"); CHECK(flat(w)==Bytes(F.begin()+e,F.end()),"extract_front(buf) remainder"); break;}
    case 2:{ size_t r=w.extract_back(req); size_t e=min(req,total); CHECK(r==e,"extract_back ret %zu exp %zu",r,e); CHECK(flat(w)==Bytes(F.begin(),F.end()-e),"extract_back remainder"); break;}
    case 3:{ Bytes out(req+1,0xEE); size_t r=w.extract_back(req,out.data()); size_t e=min(req,total);
             CHECK(r==e,"extract_back(buf) ret %zu exp %zu (total %zu req %zu)",r,e,total,req);
             if (r==e && e==req) CHECK(memcmp(out.data(),F.data()+total-e,e)==0,"extract_back(buf) data (full)");
             if (r==e && e<req) { bool ok = memcmp(out.data()+(req-e),F.data(),e)==0 || memcmp(out.data(),F.data(),e)==0; CHECK(ok,"extract_back(buf) data (short) total=%zu req=%zu",total,req);
                                  if (memcmp(out.data(),F.data(),e)!=0 && e>0) { static int once=0; if(!once++) printf("NOTE extract_back(buf) short request: data placed at tail of buf (offset req-e), not at its start\n"); } }
             CHECK(flat(w)==Bytes(F.begin(),F.end()-e),"extract_back(buf) remainder"); break;}
    case 4:{ size_t r=w.shrink_to(req); size_t e=min(req,total); CHECK(r==e,"shrink_to ret %zu exp %zu",r,e); CHECK(flat(w)==Bytes(F.begin(),F.begin()+e),"shrink_to content total=%zu req=%zu n=%d",total,req,n); break;}
    case 5:{ size_t off=R(total+3), cnt=R(total+3); iovec o[8]; iovector_view ov(o,8); ssize_t r=w.slice(cnt,off,&ov);
             size_t s=min(off,total), e=min(total, off+cnt); size_t exp=e>s?e-s:0;
             CHECK(r==(ssize_t)exp,"slice ret %zd exp %zu (total=%zu off=%zu cnt=%zu n=%d)",r,exp,total,off,cnt,n);
             if(r==(ssize_t)exp) CHECK(flat(ov)==Bytes(F.begin()+s,F.begin()+s+exp),"slice content"); CHECK(flat(w)==F,"slice must not modify source"); break;}
    case 6:{ Bytes out(req+1,0xEE); size_t r=w.memcpy_to(out.data(),req); size_t e=min(req,total); CHECK(r==e,"memcpy_to ret %zu exp %zu (n=%d)",r,e,n); CHECK(memcmp(out.data(),F.data(),e)==0,"memcpy_to data"); CHECK(out[e]==0xEE || e==req,"memcpy_to overrun"); break;}
    case 7:{ Bytes in(req+1); for(auto&c:in)c=0x80+R(100); size_t r=w.memcpy_from(in.data(),req); size_t e=min(req,total); CHECK(r==e,"memcpy_from ret %zu exp %zu",r,e); Bytes G=flat(w);
             CHECK(memcmp(G.data(),in.data(),e)==0 && Bytes(G.begin()+e,G.end())==Bytes(F.begin()+e,F.end()),"memcpy_from content"); break;}
    case 8:{ Vec d; unsigned char c2=100; int m=R(6); mk(d,m,6,c2); vector<iovec> dw=d.iov; dw.reserve(8); iovector_view dv(dw.data(),(int)dw.size()); size_t dt=flat(dv).size();
             size_t r=w.memcpy_to(&dv, req); size_t e=min(req,min(total,dt)); CHECK(r==e,"memcpy_to(view) ret %zu exp %zu (n=%d m=%d total=%zu dt=%zu req=%zu)",r,e,n,m,total,dt,req);
             Bytes G=flat(dv); CHECK(G.size()==dt && memcmp(G.data(),F.data(),e)==0,"memcpy_to(view) data"); break;}
    }
  }
  printf("done, fails=%d\n",fails);
}
