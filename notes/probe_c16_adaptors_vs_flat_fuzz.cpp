// design-time probe for C16: aligned adaptor / linear / stripe files over in-memory files vs a flat reference
#include <photon/fs/filesystem.h>
#include <photon/fs/virtual-file.h>
#include <photon/fs/aligned-file.h>
#include <photon/fs/xfile.h>
#include <photon/common/alog.h>
#include <sys/stat.h>
#include <cstdio>
#include <cstring>
#include <vector>
#include <random>
#include <string>
using namespace photon::fs;
static std::mt19937_64 rng(7); static size_t R(size_t n){ return n? rng()%n : 0; }
struct Req { char op; off_t off; size_t len; };
struct MemFile : public VirtualFile {
  std::vector<unsigned char> d; std::vector<Req> log; bool fixed=false;
  ssize_t pread(void* buf, size_t count, off_t offset) override { log.push_back({'r',offset,count}); if (offset<0) return -1; if ((size_t)offset>=d.size()) return 0; size_t n=std::min(count,d.size()-offset); memcpy(buf,d.data()+offset,n); return n; }
  ssize_t pwrite(const void* buf, size_t count, off_t offset) override { log.push_back({'w',offset,count}); if (offset<0) return -1; if (fixed && (size_t)offset+count>d.size()) { if ((size_t)offset>=d.size()) return 0; count=d.size()-offset; } if ((size_t)offset+count>d.size()) d.resize(offset+count,0); memcpy(d.data()+offset,buf,count); return count; }
  int fstat(struct stat* st) override { memset(st,0,sizeof(*st)); st->st_size=d.size(); return 0; }
  int ftruncate(off_t len) override { log.push_back({'t',len,0}); d.resize(len,0); return 0; }
  int close() override { return 0; } int fsync() override { return 0; } int fdatasync() override { return 0; }
  int fchmod(mode_t) override { return 0; } int fchown(uid_t,gid_t) override { return 0; }
  IFileSystem* filesystem() override { return nullptr; }
};
static int fails=0;
#define CHECK(c, ...) do{ if(!(c)){ fails++; if(fails<12){printf("FAIL %s: ", #c); printf(__VA_ARGS__); printf("\n");} } }while(0)
static void split_iov(std::vector<iovec>& v, unsigned char* buf, size_t len) { size_t pos=0; while (pos<len || v.empty()) { size_t n = R(4)==0 ? 0 : 1+R(len-pos); if (n>len-pos) n=len-pos; v.push_back({buf+pos,n}); pos+=n; if (v.size()>20) { v.back().iov_len += len-pos; pos=len; } } }
int main(int argc,char**argv){
  set_log_output_level(ALOG_ERROR+1);
  long iters = argc>1?atol(argv[1]):20000;
  // ---- aligned adaptor
  for (long it=0; it<iters; it++) {
    uint32_t A = 1u << (1+R(5));   // 2..32
    MemFile* mf = new MemFile; size_t size0 = R(5*A)+1; mf->d.resize(size0); for (auto& c: mf->d) c = 1+R(250);
    std::vector<unsigned char> ref = mf->d;
    IFile* af = new_aligned_file_adaptor(mf, A, false, false);
    for (int step=0; step<6; step++) {
      size_t off = R(ref.size()); size_t len = R(4*A)+ (R(5)==0?0:1); int op = R(4); mf->log.clear();
      std::vector<unsigned char> buf(len+1, 0xEE); std::vector<iovec> iov;
      if (op==0) { ssize_t r = af->pread(buf.data(), len, off); size_t e = std::min(len, ref.size()-off); CHECK(r==(ssize_t)e, "aligned pread ret %zd exp %zu (A=%u size=%zu off=%zu len=%zu)", r,e,A,ref.size(),off,len); if (r==(ssize_t)e) CHECK(memcmp(buf.data(), ref.data()+off, e)==0, "aligned pread data"); CHECK(buf[len]==0xEE,"pread overrun"); }
      else if (op==1) { for (size_t i=0;i<len;i++) buf[i]=128+R(100); ssize_t r = af->pwrite(buf.data(), len, off); CHECK(r==(ssize_t)len, "aligned pwrite ret %zd exp %zu (A=%u size=%zu off=%zu)", r,len,A,ref.size(),off); if (len) { if (off+len>ref.size()) ref.resize(off+len,0); memcpy(ref.data()+off, buf.data(), len);} CHECK(mf->d==ref, "aligned pwrite content/size (A=%u off=%zu len=%zu size now %zu exp %zu)",A,off,len,mf->d.size(),ref.size()); }
      else if (op==2) { split_iov(iov, buf.data(), len); ssize_t r = af->preadv(iov.data(), iov.size(), off); size_t e = std::min(len, ref.size()-off); CHECK(r==(ssize_t)e, "aligned preadv ret %zd exp %zu (A=%u size=%zu off=%zu len=%zu iovcnt=%zu)", r,e,A,ref.size(),off,len,iov.size()); if (r==(ssize_t)e) CHECK(memcmp(buf.data(), ref.data()+off, e)==0, "aligned preadv data"); }
      else { for (size_t i=0;i<len;i++) buf[i]=128+R(100); split_iov(iov, buf.data(), len); ssize_t r = af->pwritev(iov.data(), iov.size(), off); CHECK(r==(ssize_t)len, "aligned pwritev ret %zd exp %zu (A=%u size=%zu off=%zu)", r,len,A,ref.size(),off); if (len) { if (off+len>ref.size()) ref.resize(off+len,0); memcpy(ref.data()+off, buf.data(), len);} CHECK(mf->d==ref, "aligned pwritev content/size (A=%u off=%zu len=%zu size %zu exp %zu)",A,off,len,mf->d.size(),ref.size()); }
      for (auto& q: mf->log) if (q.op!='t') CHECK(q.off % A == 0 && q.len % A == 0, "unaligned underlay request %c off=%ld len=%zu (A=%u, user off=%zu len=%zu op=%d)", q.op,(long)q.off,q.len,A,off,len,op);
      mf->d = ref;  // resync after a reported failure
    }
    delete af; delete mf;
  }
  printf("aligned: fails so far=%d\n", fails);
  // ---- fixed-size linear and stripe
  for (long it=0; it<iters; it++) {
    int kind = R(3); size_t n = 2+R(3); size_t unit = kind==2 ? (1u<<(1+R(3))) : 1+R(9);
    std::vector<MemFile*> subs; std::vector<IFile*> fs; std::vector<size_t> sizes;
    for (size_t i=0;i<n;i++){ auto m=new MemFile; m->fixed=true; size_t sz = kind==0? unit : kind==1 ? 1+R(9) : unit*(2); m->d.resize(sz); for(auto&c:m->d)c=1+R(250); subs.push_back(m); fs.push_back(m); sizes.push_back(sz);}    
    IFile* xf = kind==0 ? new_fixed_size_linear_file(unit, fs.data(), n) : kind==1 ? new_linear_file(fs.data(), n) : new_stripe_file(unit, fs.data(), n);
    if (!xf) { CHECK(false,"xfile create failed kind=%d",kind); continue; }
    // reference flat content
    auto flat=[&](){ std::vector<unsigned char> f; if (kind<2) { for (auto m:subs) f.insert(f.end(), m->d.begin(), m->d.end()); } else { size_t rows = sizes[0]/unit; for (size_t r=0;r<rows;r++) for (size_t i=0;i<n;i++) f.insert(f.end(), subs[i]->d.begin()+r*unit, subs[i]->d.begin()+(r+1)*unit); } return f; };
    std::vector<unsigned char> ref = flat();
    for (int step=0; step<6; step++) {
      size_t off=R(ref.size()), len=R(ref.size()+3); int op=R(4); std::vector<unsigned char> buf(len+1,0xEE); std::vector<iovec> iov; size_t e=std::min(len, ref.size()-off);
      if (op==0){ ssize_t r=xf->pread(buf.data(),len,off); CHECK(r==(ssize_t)e,"xfile(kind %d) pread ret %zd exp %zu (size=%zu off=%zu len=%zu unit=%zu n=%zu)",kind,r,e,ref.size(),off,len,unit,n); if(r==(ssize_t)e) CHECK(memcmp(buf.data(),ref.data()+off,e)==0,"xfile(kind %d) pread data",kind); }
      else if (op==1){ for(size_t i=0;i<len;i++)buf[i]=128+R(100); ssize_t r=xf->pwrite(buf.data(),len,off); CHECK(r==(ssize_t)e,"xfile(kind %d) pwrite ret %zd exp %zu",kind,r,e); memcpy(ref.data()+off,buf.data(),e); CHECK(flat()==ref,"xfile(kind %d) pwrite content (off=%zu len=%zu)",kind,off,len); }
      else if (op==2){ split_iov(iov,buf.data(),len); ssize_t r=xf->preadv(iov.data(),iov.size(),off); CHECK(r==(ssize_t)e,"xfile(kind %d) preadv ret %zd exp %zu (size=%zu off=%zu len=%zu)",kind,r,e,ref.size(),off,len); if(r==(ssize_t)e) CHECK(memcmp(buf.data(),ref.data()+off,e)==0,"xfile(kind %d) preadv data",kind); }
      else { for(size_t i=0;i<len;i++)buf[i]=128+R(100); split_iov(iov,buf.data(),len); ssize_t r=xf->pwritev(iov.data(),iov.size(),off); CHECK(r==(ssize_t)e,"xfile(kind %d) pwritev ret %zd exp %zu",kind,r,e); memcpy(ref.data()+off,buf.data(),e); CHECK(flat()==ref,"xfile(kind %d) pwritev content",kind); }
    }
    delete xf; for (auto m: subs) delete m;
  }
  printf("done, fails=%d\n", fails);
}
