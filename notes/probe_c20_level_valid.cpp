#include <photon/fs/path.h>
#include <cstdio>
using namespace photon::fs;
int main() {
  const char* cases[] = {"a/../b", "a/b/../../c", "./a/..", ".a/..", "..a/..", ".../..", "a/..", "/a/../b", "a/./..", "x/../../y", ".git/../..", ".a/../..", "a/b/c/../../../../etc"};
  for (auto c : cases) printf("%-22s -> %d\n", c, (int)path_level_valid(c));
}
