// feasibility probe: serialising controller for several photon vCPUs (OS threads) at PHOTON_VERIF hook points
#include <photon/thread/thread.h>
#include <photon/thread/thread11.h>
#include <photon/io/fd-events.h>
#include <photon/common/alog.h>
#include <photon/common/verif-hook.h>
#include <cstdio>
#include <cstdlib>
#include <cstring>
#include <atomic>
#include <thread>
#include <vector>
#include <time.h>
using namespace photon;

static uint64_t vclock_us = 1000000;
extern "C" int clock_gettime(clockid_t, struct timespec* ts) { ts->tv_sec = vclock_us/1000000; ts->tv_nsec=(vclock_us%1000000)*1000; return 0; }

enum { RUNNABLE, BLOCKED, IDLE, FINISHED };
struct OsT { int st = RUNNABLE; const void* blocked_on = nullptr; uint64_t deadline = 0; bool cancelled = false; };
static const int MAXT = 8;
static OsT T[MAXT]; static int NT = 0;
static std::atomic<int> turn{-1};
static thread_local int me = -1;
static uint64_t rng_state; static uint64_t rnd() { rng_state ^= rng_state << 13; rng_state ^= rng_state >> 7; rng_state ^= rng_state << 17; return rng_state; }
static int prio[MAXT]; static long change_at[4]; static int nchange = 0; static long step_no = 0; static int lowprio = -1;
static uint64_t log_hash = 1469598103934665603ULL; static long nevents = 0, nswitches = 0, ntimejumps = 0;
static void logev(int who, int kind, uint64_t a) { uint64_t x = (uint64_t)who * 1000003 + kind * 10007 + a; log_hash = (log_hash ^ x) * 1099511628211ULL; nevents++; }
static std::vector<const void*> objs;   // address -> small id (stable across runs because creation order is deterministic)
static int objid(const void* p) { for (size_t i = 0; i < objs.size(); i++) if (objs[i] == p) return (int)i; objs.push_back(p); return (int)objs.size() - 1; }

static void wait_turn() { while (turn.load(std::memory_order_acquire) != me) { _mm_pause(); } }
// called with the turn held by `me`; picks who runs next
static void schedule() {
  for (;;) {
    int cand[MAXT], n = 0;
    for (int i = 0; i < NT; i++) if (T[i].st == RUNNABLE) cand[n++] = i;
    if (n == 0) {
      // everybody idle/blocked/done: jump virtual time to the earliest idle deadline
      int best = -1; for (int i = 0; i < NT; i++) if (T[i].st == IDLE && (best < 0 || T[i].deadline < T[best].deadline)) best = i;
      if (best < 0) { bool alldone = true; for (int i = 0; i < NT; i++) if (T[i].st != FINISHED) alldone = false;
                      if (alldone) { turn.store(-2); return; } fprintf(stderr, "DEADLOCK: no enabled thread\n"); abort(); }
      if (T[best].deadline > vclock_us) { vclock_us = T[best].deadline; photon::now = vclock_us; ntimejumps++; }
      T[best].st = RUNNABLE; continue;
    }
    step_no++; for (int c = 0; c < nchange; c++) if (change_at[c] == step_no && me >= 0) prio[me] = lowprio--;
    int next = cand[0]; for (int i = 1; i < n; i++) if (prio[cand[i]] > prio[next]) next = cand[i];
    if (next != me) nswitches++;
    turn.store(next, std::memory_order_release);
    return;
  }
}
static void point(int kind, const void* obj, uint64_t a, uint64_t b) {
  if (me < 0) return;                       // not a controlled OS thread
  int oid = objid(obj);
  logev(me, kind, oid);
  if (kind == 4) { for (int i = 0; i < NT; i++) if (T[i].st == BLOCKED && T[i].blocked_on == obj) T[i].st = RUNNABLE; }
  if (kind == 2) { T[me].st = BLOCKED; T[me].blocked_on = obj; }
  schedule(); wait_turn();
}
struct VEngine : public MasterEventEngine {
  int id;
  VEngine(int id) : id(id) {}
  int wait_for_fd(int, uint32_t, Timeout) override { errno = ENOSYS; return -1; }
  ssize_t wait_and_fire_events(uint64_t t) override {
    if (!t) return 0;
    if (T[id].cancelled) { T[id].cancelled = false; return 0; }
    if (t > 10*1024*1024) t = 10*1024*1024;
    T[id].st = IDLE; T[id].deadline = vclock_us + t; logev(id, 100, 0);
    schedule(); wait_turn();
    T[id].cancelled = false;
    return 0; }
  int cancel_wait() override { logev(me, 101, id); T[id].cancelled = true; if (T[id].st == IDLE) T[id].st = RUNNABLE; return 0; }
};

static photon::mutex* M; static int inside = 0; static long violations = 0, acquisitions = 0, failed = 0;
static void body(int vid, int k) {
  for (int i = 0; i < ITERS; i++) {
    int r = M->lock(Timeout());
    if (r == 0) { acquisitions++; if (++inside != 1) violations++; if ((i + k) % 3 == 0) thread_yield(); if (--inside != 0) violations++; M->unlock(); }
    else failed++;
    
  }
}
static void vcpu_main(int id) {
  me = id; wait_turn();
  vcpu_init(); fd_events_init(new VEngine(id));
  std::vector<thread*> ths;
  for (int k = 0; k < NTH; k++) { auto th = thread_create11(body, id, k + 3 * id); thread_enable_join(th); ths.push_back(th); }
  for (auto th : ths) thread_join((join_handle*)th);
  fd_events_fini(); vcpu_fini();
  T[id].st = FINISHED; logev(id, 200, 0); schedule();
}
int main(int argc, char** argv) {
  set_log_output_level(ALOG_ERROR + 1);
  uint64_t seed = argc > 1 ? strtoull(argv[1], 0, 10) : 1; int nv = argc > 2 ? atoi(argv[2]) : 2;
  rng_state = seed * 0x9E3779B97F4A7C15ULL + 1; photon::now = vclock_us;
  M = new photon::mutex(1);      // few yield retries, so that the slow path is exercised
  photon::verif::hook = &point;
  NT = nv; std::vector<std::thread> os;
  { int d = argc > 3 ? atoi(argv[3]) : 2; long N = argc > 4 ? atol(argv[4]) : 60; nchange = d; for (int i = 0; i < nv; i++) prio[i] = 10 + (int)(rnd() % 1000); for (int c = 0; c < d; c++) change_at[c] = 1 + (long)(rnd() % N); }
  for (int i = 0; i < nv; i++) os.emplace_back(vcpu_main, i);
  turn.store(0, std::memory_order_release);
  for (auto& t : os) t.join();
  printf("seed=%lu vcpus=%d events=%ld switches=%ld timejumps=%ld acquisitions=%ld failed_locks=%ld violations=%ld hash=%016lx vnow=%lu\n",
         (unsigned long)seed, nv, nevents, nswitches, ntimejumps, acquisitions, failed, violations, (unsigned long)log_hash, (unsigned long)vclock_us);
}
