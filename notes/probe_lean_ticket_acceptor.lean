/-! calibration probe: ticket spinlock, arbitrary number of threads, acceptor style -/
namespace Probe

def AL (β : Type) := List (Nat × β)
namespace AL
variable {β : Type}
def get (d : β) : AL β → Nat → β
  | [], _ => d
  | (k', v) :: r, k => if k' = k then v else get d r k
def erase : AL β → Nat → AL β
  | [], _ => []
  | (k', v) :: r, k => if k' = k then erase r k else (k', v) :: erase r k
def set (m : AL β) (k : Nat) (v : β) : AL β := (k, v) :: erase m k
theorem get_erase_ne (d : β) (m : AL β) (k k' : Nat) (h : k' ≠ k) : get d (erase m k) k' = get d m k' := by
  induction m with
  | nil => rfl
  | cons p ps ih =>
    obtain ⟨a, v⟩ := p
    by_cases ha : a = k
    · subst ha; simp [erase, get, ih, Ne.symm h]
    · simp [erase, ha, get, ih]
@[simp] theorem get_set_eq (d : β) (m : AL β) (k : Nat) (v : β) : get d (set m k v) k = v := by
  simp [get, set]
@[simp] theorem get_set_ne (d : β) (m : AL β) (k k' : Nat) (v : β) (h : k' ≠ k) :
    get d (set m k v) k' = get d m k' := by
  simp [get, set, Ne.symm h, get_erase_ne d m k k' h]
end AL

inductive PC where
  | idle | waiting (k : Nat) | holding (k : Nat)
deriving DecidableEq, Repr

structure St where
  next : Nat
  serv : Nat
  pcs : AL PC

def St.pc (s : St) (t : Nat) : PC := AL.get .idle s.pcs t

inductive Ev where
  | take (t : Nat) | enter (t : Nat) | unlock (t : Nat)
deriving Repr

def init : St := ⟨0, 0, []⟩

def step (s : St) : Ev → Except String St
  | .take t => match s.pc t with
      | .idle => .ok { s with next := s.next + 1, pcs := s.pcs.set t (.waiting s.next) }
      | _ => .error "take: not idle"
  | .enter t => match s.pc t with
      | .waiting k => if s.serv = k then .ok { s with pcs := s.pcs.set t (.holding k) } else .error "enter: not served"
      | _ => .error "enter: not waiting"
  | .unlock t => match s.pc t with
      | .holding _ => .ok { s with serv := s.serv + 1, pcs := s.pcs.set t .idle }
      | _ => .error "unlock: not holding"

def run (s : St) : List Ev → Except String St
  | [] => .ok s
  | e :: es => match step s e with
      | .ok s' => run s' es
      | .error m => .error m

def ticket? : PC → Option Nat
  | .idle => none | .waiting k => some k | .holding k => some k

structure Inv (s : St) : Prop where
  le : s.serv ≤ s.next
  range : ∀ t k, ticket? (s.pc t) = some k → s.serv ≤ k ∧ k < s.next
  distinct : ∀ t t' k, ticket? (s.pc t) = some k → ticket? (s.pc t') = some k → t = t'
  holder : ∀ t k, s.pc t = .holding k → k = s.serv

theorem inv_init : Inv init := by
  constructor <;> simp [init, St.pc, AL.get, ticket?]

theorem pc_set (s : St) (t u : Nat) (v : PC) (n sv : Nat) :
    St.pc { next := n, serv := sv, pcs := s.pcs.set t v } u = if u = t then v else s.pc u := by
  unfold St.pc
  by_cases h : u = t
  · subst h; simp
  · simp [h]

theorem inv_step (s s' : St) (e : Ev) (h : Inv s) (hs : step s e = .ok s') : Inv s' := by
  cases e with
  | take t =>
    simp only [step] at hs
    split at hs <;> try contradiction
    next hidle =>
    injection hs with hs; subst hs
    refine ⟨by have := h.le; simp; omega, ?_, ?_, ?_⟩
    · intro u k hk
      rw [pc_set] at hk
      split at hk
      · simp [ticket?] at hk; subst hk; have := h.le; simp; omega
      · have := h.range u k hk; simp; omega
    · intro u u' k hk hk'
      rw [pc_set] at hk hk'
      split at hk <;> split at hk'
      · omega
      · simp [ticket?] at hk; subst hk; have := h.range u' _ hk'; omega
      · simp [ticket?] at hk'; subst hk'; have := h.range u _ hk; omega
      · exact h.distinct u u' k hk hk'
    · intro u k hk
      rw [pc_set] at hk
      split at hk
      · simp at hk
      · exact h.holder u k hk
  | enter t =>
    simp only [step] at hs
    split at hs <;> try contradiction
    next k hw =>
    split at hs <;> try contradiction
    next hserv =>
    injection hs with hs; subst hs
    have htk : ticket? (s.pc t) = some k := by simp [hw, ticket?]
    refine ⟨h.le, ?_, ?_, ?_⟩
    · intro u k' hk
      rw [pc_set] at hk
      split at hk
      · simp [ticket?] at hk; subst hk; exact h.range t k htk
      · exact h.range u k' hk
    · intro u u' k' hk hk'
      rw [pc_set] at hk hk'
      split at hk <;> split at hk'
      · omega
      · simp [ticket?] at hk; subst hk; rename_i hu _; subst hu; exact h.distinct _ _ _ htk hk'
      · simp [ticket?] at hk'; subst hk'; rename_i _ hu; subst hu; exact h.distinct _ _ _ hk htk
      · exact h.distinct u u' k' hk hk'
    · intro u k' hk
      rw [pc_set] at hk
      split at hk
      · simp at hk ⊢; omega
      · exact h.holder u k' hk
  | unlock t =>
    simp only [step] at hs
    split at hs <;> try contradiction
    next k hh =>
    injection hs with hs; subst hs
    have hk0 := h.holder t k hh
    have htk : ticket? (s.pc t) = some k := by simp [hh, ticket?]
    have hr := h.range t k htk
    refine ⟨by simp; omega, ?_, ?_, ?_⟩
    · intro u k' hk
      rw [pc_set] at hk
      split at hk
      · simp [ticket?] at hk
      · have := h.range u k' hk
        have hne : k' ≠ k := by
          intro e; subst e; rename_i hu; exact hu (h.distinct u t k' hk htk)
        simp; omega
    · intro u u' k' hk hk'
      rw [pc_set] at hk hk'
      split at hk <;> split at hk'
      · omega
      · simp [ticket?] at hk
      · simp [ticket?] at hk'
      · exact h.distinct u u' k' hk hk'
    · intro u k' hk
      rw [pc_set] at hk
      split at hk
      · simp at hk
      · have := h.holder u k' hk
        have htu : ticket? (s.pc u) = some k' := by simp [hk, ticket?]
        rename_i hu
        exact absurd (h.distinct u t k' htu (by rw [this, ← hk0]; exact htk)) hu

theorem inv_run (tr : List Ev) : ∀ s s', Inv s → run s tr = .ok s' → Inv s' := by
  induction tr with
  | nil => intro s s' h hr; simp [run] at hr; subst hr; exact h
  | cons e es ih =>
    intro s s' h hr
    simp only [run] at hr
    split at hr
    · next s1 hs => exact ih s1 s' (inv_step s s1 e h hs) hr
    · contradiction

/-- mutual exclusion for every reachable state, any number of threads, any trace -/
theorem ticket_mutex (tr : List Ev) (s : St) (hr : run init tr = .ok s)
    (t u k k' : Nat) (h1 : s.pc t = .holding k) (h2 : s.pc u = .holding k') : t = u := by
  have hi := inv_run tr init s inv_init hr
  have e1 := hi.holder t k h1
  have e2 := hi.holder u k' h2
  exact hi.distinct t u k (by simp [h1, ticket?]) (by simp [h2, ticket?, e1, e2])

#print axioms ticket_mutex
#eval match run init [.take 1, .take 2, .enter 1, .unlock 1, .enter 2] with | .ok s => s!"ok serv={s.serv} next={s.next}" | .error m => m
#eval match run init [.take 1, .take 2, .enter 2] with | .ok _ => "ok" | .error m => m
end Probe
