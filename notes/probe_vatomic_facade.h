// instrumented std::atomic facade (probe)
#pragma once
#include <atomic>
#include <cstddef>
#include <cstdint>
#include <memory>
#include <thread>
#include <chrono>
#include <type_traits>
#include <algorithm>
#include <cstring>
#include <cstdlib>
#include <cassert>
#include <cerrno>
#include <emmintrin.h>
extern "C" void vpoint(int kind, const void* addr, uint64_t a, uint64_t b);
namespace std {
template<class T> struct vatomic {
  std::atomic<T> a;
  vatomic() = default; constexpr vatomic(T v) : a(v) {}
  vatomic(const vatomic&) = delete;
  T load(std::memory_order m = std::memory_order_seq_cst) const { vpoint(0, this, 0, 0); return a.load(m); }
  void store(T v, std::memory_order m = std::memory_order_seq_cst) { vpoint(1, this, (uint64_t)v, 0); a.store(v, m); }
  T exchange(T v, std::memory_order m = std::memory_order_seq_cst) { vpoint(2, this, (uint64_t)v, 0); return a.exchange(v, m); }
  bool compare_exchange_strong(T& e, T d) { vpoint(3, this, (uint64_t)e, (uint64_t)d); return a.compare_exchange_strong(e, d); }
  bool compare_exchange_strong(T& e, T d, std::memory_order m1, std::memory_order m2) { vpoint(3, this, (uint64_t)e, (uint64_t)d); return a.compare_exchange_strong(e, d, m1, m2); }
  bool compare_exchange_strong(T& e, T d, std::memory_order m1) { vpoint(3, this, (uint64_t)e, (uint64_t)d); return a.compare_exchange_strong(e, d, m1); }
  bool compare_exchange_weak(T& e, T d, std::memory_order m1, std::memory_order m2) { vpoint(3, this, (uint64_t)e, (uint64_t)d); return a.compare_exchange_strong(e, d, m1, m2); }
  T fetch_add(T v, std::memory_order m = std::memory_order_seq_cst) { vpoint(4, this, (uint64_t)v, 0); return a.fetch_add(v, m); }
  T fetch_sub(T v, std::memory_order m = std::memory_order_seq_cst) { vpoint(5, this, (uint64_t)v, 0); return a.fetch_sub(v, m); }
  T fetch_or(T v, std::memory_order m = std::memory_order_seq_cst) { vpoint(6, this, (uint64_t)v, 0); return a.fetch_or(v, m); }
  operator T() const { return load(); }
  T operator=(T v) { store(v); return v; }
  T operator++(int) { return fetch_add(1); } T operator--(int) { return fetch_sub(1); }
  T operator++() { return fetch_add(1) + 1; } T operator--() { return fetch_sub(1) - 1; }
};
typedef vatomic<bool> vatomic_bool; typedef vatomic<size_t> vatomic_size_t;
}
#define atomic vatomic
#define atomic_bool vatomic_bool
#define atomic_size_t vatomic_size_t
