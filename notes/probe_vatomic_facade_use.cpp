#include <photon/common/lockfree_queue.h>
#include <cstdio>
static long npoints = 0;
extern "C" void vpoint(int kind, const void* addr, uint64_t a, uint64_t b) { npoints++; }
int main() {
  LockfreeMPMCRingQueue<int, 4> q; int v;
  for (int i = 0; i < 6; i++) printf("push %d -> %d\n", i, (int)q.push(i));
  while (q.pop(v)) printf("pop -> %d\n", v);
  LockfreeBatchMPMCRingQueue<int, 4> b; int xs[3] = {7,8,9}; printf("push_batch -> %zu\n", b.push_batch(xs, 3)); int ys[4]; printf("pop_batch -> %zu\n", b.pop_batch(ys, 4));
  LockfreeSPSCRingQueue<int, 2> s; printf("spsc push %d %d %d\n", s.push(1), s.push(2), s.push(3));
  printf("atomic accesses intercepted: %ld\n", npoints);
}
