#pragma once
#include <cstdint>
#ifdef PHOTON_VERIF
namespace photon { namespace verif {
typedef void (*hook_fn)(int point, const void* obj, uint64_t a, uint64_t b);
extern hook_fn hook;
}}
#define PHOTON_VERIF_POINT(p, obj, a, b) do { if (auto __h = ::photon::verif::hook) __h((p), (obj), (uint64_t)(a), (uint64_t)(b)); } while (0)
#else
#define PHOTON_VERIF_POINT(p, obj, a, b) ((void)0)
#endif
