#include <photon/thread/thread.h>
#include <photon/thread/thread11.h>
#include <photon/io/fd-events.h>
#include <photon/common/alog.h>
#include <cstdio>
#include <cerrno>
#include <time.h>
#include <unistd.h>
#include <sys/syscall.h>
#include <atomic>
using namespace photon;
static uint64_t vclock_us = 1000000;   // virtual clock
extern "C" int clock_gettime(clockid_t, struct timespec* ts) {
  ts->tv_sec = vclock_us / 1000000; ts->tv_nsec = (vclock_us % 1000000) * 1000; return 0;
}
static int idle_calls = 0;
struct VEngine : public MasterEventEngine {
  int wait_for_fd(int, uint32_t, Timeout) override { errno = ENOSYS; return -1; }
  ssize_t wait_and_fire_events(uint64_t timeout) override {
    idle_calls++;
    if (timeout == 0) return 0;
    if (timeout > 10*1024*1024) timeout = 10*1024*1024;
    vclock_us += timeout; photon::now = vclock_us;   // jump straight to the next deadline
    return 0;
  }
  int cancel_wait() override { return 0; }
};
int main() {
  set_log_output_level(ALOG_ERROR);
  vcpu_init();
  fd_events_init(new VEngine);
  photon::now = vclock_us;
  struct timespec t0, t1; syscall(228 /*SYS_clock_gettime*/, CLOCK_MONOTONIC, &t0);
  auto T = thread_create11([&]{
     for (int i = 0; i < 3; i++) { int r = thread_usleep(3*1000*1000); printf("T woke r=%d now=%lu\n", r, (unsigned long)photon::now); }
  });
  thread_enable_join(T);
  auto U = thread_create11([&]{
     int r = thread_usleep(5*1000*1000); printf("U woke r=%d now=%lu\n", r, (unsigned long)photon::now);
     thread_interrupt(T, EINTR);
  });
  thread_enable_join(U);
  thread_join((join_handle*)T); thread_join((join_handle*)U);
  syscall(228, CLOCK_MONOTONIC, &t1);
  printf("virtual now=%lu idle_calls=%d real elapsed=%ld ms\n", (unsigned long)photon::now, idle_calls, (t1.tv_sec-t0.tv_sec)*1000 + (t1.tv_nsec-t0.tv_nsec)/1000000);
  fd_events_fini();
  vcpu_fini();
}
