// design-time prototype for C17: cached reads vs deterministic source content, concurrent readers + whole-file eviction
#include <photon/photon.h>
#include <photon/thread/thread11.h>
#include <photon/common/alog.h>
#include <photon/common/io-alloc.h>
#include <photon/fs/localfs.h>
#include <photon/fs/aligned-file.h>
#include <photon/fs/cache/cache.h>
#include <photon/fs/cache/pool_store.h>
#include <sys/stat.h>
#include <cstdio>
#include <cstdlib>
#include <cstring>
#include <string>
#include <vector>
using namespace photon; using namespace photon::fs;
static uint64_t rs; static uint64_t rnd(){ rs^=rs<<13; rs^=rs>>7; rs^=rs<<17; return rs; } static size_t R(size_t n){ return n? rnd()%n:0; }
static inline unsigned char f(uint64_t off){ uint64_t x = off*0x9E3779B97F4A7C15ULL; x ^= x>>29; return (unsigned char)(x*31 + (off>>12)); }
static long problems=0, reads=0, evictions=0; static std::string first; static void problem(const std::string& s){ if(!problems++) first=s; }
int main(int argc,char**argv){
  set_log_output_level(ALOG_ERROR+1);
  uint64_t seed = argc>1? strtoull(argv[1],0,10):1; rs = seed*0x9E3779B97F4A7C15ULL+99; std::string base = argc>2? argv[2] : "/var/tmp/lp9/c17";
  photon::init(INIT_EVENT_DEFAULT, INIT_IO_LIBAIO);
  std::string src = base+"/src", media = base+"/media"; system(("rm -rf "+base+" && mkdir -p "+src+"/d "+media).c_str());
  size_t fsize = 4096*(8+R(40)) + (R(2)? R(4096):0);
  { std::vector<unsigned char> d(fsize); for (size_t i=0;i<fsize;i++) d[i]=f(i); FILE* fp=fopen((src+"/d/file").c_str(),"wb"); fwrite(d.data(),1,fsize,fp); fclose(fp); }
  auto srcFs = new_localfs_adaptor(src.c_str(), ioengine_psync);
  auto mediaFs = new_localfs_adaptor(media.c_str(), ioengine_psync);
  auto alignFs = new_aligned_fs_adaptor(mediaFs, 4096, true, true);
  auto alloc = new AlignedAlloc(4096);
  uint64_t refill = 4096u << R(4);
  auto cfs = new_full_file_cached_fs(srcFs, alignFs, refill, 1, 1000*1000, 0, alloc, 0);
  if (!cfs) { printf("cannot create cached fs\n"); return 1; }
  auto pool = cfs->get_pool();
  bool stop=false; int nreaders = 2+R(4);
  auto reader = [&](int id){
    auto file = cfs->open("/d/file", O_RDONLY, 0644); if (!file) { problem("open failed"); return; }
    for (int it=0; it<60; it++) {
      size_t off = R(fsize+100), len = 1+R(R(3)? 20000 : 200000);
      std::vector<unsigned char> buf(len+1, 0xEE); std::vector<iovec> iov; size_t p=0; while (p<len) { size_t c = 1+R(len-p); if (iov.size()>6) c=len-p; iov.push_back({buf.data()+p,c}); p+=c; }
      ssize_t r = file->preadv(iov.data(), iov.size(), off); reads++;
      size_t e = off>=fsize? 0 : std::min(len, fsize-off);
      if (r<0) { problem("read failed off="+std::to_string(off)+" len="+std::to_string(len)+" errno="+std::to_string(errno)); continue; }
      if ((size_t)r!=e) { problem("count: off="+std::to_string(off)+" len="+std::to_string(len)+" got "+std::to_string(r)+" exp "+std::to_string(e)+" fsize="+std::to_string(fsize)); continue; }
      for (size_t i=0;i<e;i++) if (buf[i]!=f(off+i)) { problem("WRONG BYTE at file offset "+std::to_string(off+i)+" (read off="+std::to_string(off)+" len="+std::to_string(len)+" fsize="+std::to_string(fsize)+" refill="+std::to_string(refill)+")"); break; }
      if (buf[len]!=0xEE) problem("overrun");
      if (R(4)==0) thread_usleep(R(2000)); else if (R(2)) thread_yield();
    }
    delete file;
  };
  std::vector<thread*> ths; for (int i=0;i<nreaders;i++){ auto th=thread_create11(reader,i); thread_enable_join(th); ths.push_back(th);} 
  auto ev = thread_create11([&]{ while(!stop){ thread_usleep(500+R(4000)); if (R(2)) { pool->evict("/d/file"); evictions++; } } }); thread_enable_join(ev);
  for (auto th: ths) thread_join((join_handle*)th); stop=true; thread_join((join_handle*)ev);
  delete cfs;
  printf("seed=%lu fsize=%zu refill=%lu readers=%d reads=%ld evictions=%ld problems=%ld %s\n",(unsigned long)seed,fsize,(unsigned long)refill,nreaders,reads,evictions,problems,first.c_str());
  system(("rm -rf "+base).c_str());
  photon::fini(); return problems?2:0;
}
