// design-time prototype for C19: ObjectCache under a virtual clock, ctor/dtor log with live-reference monitor
#include <photon/thread/thread.h>
#include <photon/thread/thread11.h>
#include <photon/io/fd-events.h>
#include <photon/common/alog.h>
#include <photon/common/expirecontainer.h>
#include <cstdio>
#include <cstdlib>
#include <vector>
#include <string>
#include <time.h>
using namespace photon;
static uint64_t vclock_us = 1000000;
extern "C" int clock_gettime(clockid_t, struct timespec* ts) { ts->tv_sec = vclock_us/1000000; ts->tv_nsec=(vclock_us%1000000)*1000; return 0; }
static uint64_t rs; static uint64_t rnd(){ rs^=rs<<13; rs^=rs>>7; rs^=rs<<17; return rs; } static size_t R(size_t n){ return n? rnd()%n:0; }
static long problems=0; static std::string first; static void problem(const std::string& s){ if(!problems++) first=s; }
struct VEngine : public MasterEventEngine {
  int wait_for_fd(int, uint32_t, Timeout) override { errno = ENOSYS; return -1; }
  ssize_t wait_and_fire_events(uint64_t t) override { if (!t) return 0; if (t>10*1024*1024) t=10*1024*1024; vclock_us += t; photon::now = vclock_us; return 0; }
  int cancel_wait() override { return 0; }
};
static const int K = 3;
static int live_refs[K]; static int constructing[K]; static int live_objs[K]; static long ctors=0, dtors=0, fails=0;
struct Obj { int key; int magic = 0x5AFE; Obj(int k):key(k){ live_objs[k]++; } ~Obj(){ if (live_refs[key]>0 && live_objs[key]==1) problem("object of key "+std::to_string(key)+" destroyed while "+std::to_string(live_refs[key])+" references are held"); magic = 0xDEAD; live_objs[key]--; dtors++; } };
int main(int argc,char**argv){
  set_log_output_level(ALOG_ERROR+1);
  uint64_t seed = argc>1? strtoull(argv[1],0,10):1; rs = seed*0x9E3779B97F4A7C15ULL+777;
  vcpu_init(); fd_events_init(new VEngine); photon::now=vclock_us;
  {
  ObjectCache<int, Obj*> oc(2000 /*lifespan us*/, 1000 /*timer*/, 2 + R(3));
  int N = 3+R(4); std::vector<thread*> ths;
  auto body = [&](int id){
    for (int it=0; it<8; it++) {
      int k = R(K); bool failing = R(6)==0; bool slow = R(3)==0;
      auto ctor = [&]() -> Obj* { if (constructing[k]++) problem("two constructors running at once for key "+std::to_string(k)); if (slow) thread_usleep(100+R(900)); constructing[k]--; ctors++; if (failing) { fails++; return nullptr; } return new Obj(k); };
      auto item = oc.ref_acquire(k, ctor, R(2)? 0 : 500);
      if (!item) { if (R(2)) thread_usleep(R(700)); continue; }
      live_refs[k]++;
      Obj* o = item->get_ptr(); if (!o || o->magic != 0x5AFE || o->key != k) problem("acquired a dead or wrong object");
      if (R(2)) thread_yield(); if (R(2)) thread_usleep(R(3000));
      if (o->magic != 0x5AFE) problem("object died while borrowed");
      live_refs[k]--;
      int how = R(4);
      if (how==0) { auto before = live_refs[k]; auto r = oc.ref_release(item, true, true); (void)r; if (live_refs[k] > before) {/* new acquirers may exist for a NEW item */} }
      else oc.ref_release(item, false, true);
      if (R(3)==0) thread_usleep(R(5000));
    }
  };
  for (int i=0;i<N;i++){ auto th=thread_create11(body,i); thread_enable_join(th); ths.push_back(th);} 
  for (auto th: ths) thread_join((join_handle*)th);
  thread_usleep(50*1000);   // let expiry run
  for (int k=0;k<K;k++) if (live_objs[k]!=0) problem("object of key "+std::to_string(k)+" still alive long after lifespan with no reference");
  }
  printf("seed=%lu ctors=%ld dtors=%ld failed_ctors=%ld problems=%ld %s\n",(unsigned long)seed,ctors,dtors,fails,problems,first.c_str());
  fd_events_fini(); vcpu_fini(); return problems?2:0;
}
