// design-time prototype of the single-vCPU deterministic simulation (H-sim): structured random workloads on
// mutex / rwlock / qrwlock / condvar / semaphore with monitors and quiescence ("stuck") detection, virtual clock.
#define protected public
#define private public
#include <photon/thread/thread.h>
#undef protected
#undef private
#include <photon/thread/thread11.h>
#include <photon/io/fd-events.h>
#include <photon/common/alog.h>
#include <cstdio>
#include <cstdlib>
#include <cstring>
#include <vector>
#include <string>
#include <time.h>
using namespace photon;
static uint64_t vclock_us = 1000000;
extern "C" int clock_gettime(clockid_t, struct timespec* ts) { ts->tv_sec = vclock_us/1000000; ts->tv_nsec=(vclock_us%1000000)*1000; return 0; }
static uint64_t rs; static uint64_t rnd(){ rs^=rs<<13; rs^=rs>>7; rs^=rs<<17; return rs; } static size_t R(size_t n){ return n? rnd()%n:0; }
static long problems = 0; static std::string first_problem;
static void problem(const std::string& s){ if (!problems++) first_problem = s; }
static int live_threads = 0; static bool stuck_reported = false;
static std::vector<std::string> where;   // what each thread is doing (for stuck reports)
struct VEngine : public MasterEventEngine {
  int wait_for_fd(int, uint32_t, Timeout) override { errno = ENOSYS; return -1; }
  ssize_t wait_and_fire_events(uint64_t t) override {
    if (!t) return 0;
    if (t >= 10*1024*1024 && live_threads > 0 && !stuck_reported) {   // nobody has a finite deadline: quiescent forever
      stuck_reported = true; std::string w; for (size_t i=0;i<where.size();i++) if (!where[i].empty()) w += " T"+std::to_string(i)+":"+where[i];
      problem("STUCK at quiescence:" + w);
    }
    if (t > 10*1024*1024) t = 10*1024*1024; vclock_us += t; photon::now = vclock_us;
    if (stuck_reported) { exit(3); }
    return 0; }
  int cancel_wait() override { return 0; }
};
static Timeout tmo(bool finite){ return finite ? Timeout(50 + R(3000)) : Timeout(); }
int main(int argc, char** argv) {
  set_log_output_level(ALOG_ERROR+1);
  uint64_t seed = argc>1? strtoull(argv[1],0,10):1; int mode = argc>2? atoi(argv[2]):0; bool finite = argc>3? atoi(argv[3]):1; bool intr = argc>4? atoi(argv[4]):0;
  rs = seed*0x9E3779B97F4A7C15ULL+12345; vcpu_init(); fd_events_init(new VEngine); photon::now = vclock_us;
  int N = 3 + R(5); where.assign(N, ""); std::vector<thread*> ths(N, nullptr); std::vector<char> alive(N, 0);
  auto maybe_intr = [&](int self){ if (intr && R(4)==0) { int o=R(N); if (o!=self && ths[o] && alive[o]) thread_interrupt(ths[o], EINTR); } };
  // shared objects
  mutex m(R(2)? 100 : 0); int in_m = 0;
  rwlock rw; qrwlock qrw; int readers=0, writers=0;
  semaphore sem(0, mode==31 ? false : true); long signalled=0, taken=0;
  mutex cm; condition_variable cv; long items=0, produced=0, consumed=0;
  long total_demand = 0; std::vector<std::vector<int>> demands(N);
  if (mode==3 || mode==31) for (int i=0;i<N;i++) for (int k=0;k<4;k++){ int d=1+R(4); demands[i].push_back(d); total_demand+=d; }
  auto body = [&](int id){
    live_threads++; alive[id]=1;
    for (int it=0; it<6; it++) {
      switch (mode) {
      case 0: { // mutex
        where[id]="mutex.lock"; int r = m.lock(tmo(finite)); where[id]="";
        if (r==0) { if (++in_m!=1) problem("mutex: two owners"); if (m.owner.load()!=CURRENT) problem("mutex: lock()==0 but owner!=CURRENT"); if (R(2)) thread_yield(); if (R(3)==0) thread_usleep(R(500)); maybe_intr(id); if (--in_m!=0) problem("mutex: occupancy"); m.unlock(); }
        else { if (m.owner.load()==CURRENT) problem("mutex: lock() failed but caller is owner"); }
        if (R(3)==0) thread_usleep(R(300)); break; }
      case 1: case 2: { // rwlock / qrwlock
        int md = R(3)==0 ? WLOCK : RLOCK; where[id]=md==WLOCK?"rw.wlock":"rw.rlock";
        int r = mode==1 ? rw.lock(md, tmo(finite)) : qrw.lock(md, tmo(finite)); where[id]="";
        if (r==0) { if (md==WLOCK) { if (++writers!=1 || readers!=0) problem("rwlock: writer not exclusive"); } else { if (++readers<1 || writers!=0) problem("rwlock: reader with writer"); }
          if (R(2)) thread_yield(); if (R(3)==0) thread_usleep(R(400)); maybe_intr(id);
          if (md==WLOCK) writers--; else readers--; if (mode==1) rw.unlock(); else qrw.unlock(); }
        if (R(3)==0) thread_usleep(R(300)); break; }
      case 3: case 31: { // semaphore: every thread signals what it demands overall, in random pieces
        if (it<4) { int d = demands[id][it]; // signal d tokens (possibly split), then wait for d tokens
          int a = R(d+1); if (a) { sem.signal(a); signalled+=a; } if (R(2)) thread_yield(); if (d-a) { sem.signal(d-a); signalled+=d-a; }
          where[id]="sem.wait("+std::to_string(d)+")"; int r = sem.wait_interruptible(d, tmo(finite)); where[id]="";
          if (r==0) taken+=d; else { /* failed: takes nothing; give the tokens back to keep the workload balanced */ signalled-=0; }
          maybe_intr(id); }
        break; }
      case 4: { // condvar producer/consumer with predicate
        bool producer = (id%2==0);
        if (producer) { cm.lock(); items++; produced++; if (R(2)) cv.notify_one(); else cv.notify_all(); cm.unlock(); if (R(2)) thread_yield(); }
        else { cm.lock(); where[id]="cv.wait"; while (items==0) { int r = cv.wait(cm, tmo(finite)); if (cm.owner.load()!=CURRENT) problem("cv.wait returned without the lock"); if (r<0 && finite && errno!=ETIMEDOUT && errno!=EINTR) problem("cv.wait unexpected errno "+std::to_string(errno)); if (r<0 && !finite && !intr) problem("cv.wait failed without timeout/interrupt"); if (r<0 && finite) break; } where[id]="";
               if (items>0) { items--; consumed++; } cm.unlock(); }
        maybe_intr(id); break; }
      }
    }
    live_threads--; alive[id]=0;
  };
  int np = 0; for (int i=0;i<N;i++) if (i%2==0) np++;
  for (int i=0;i<N;i++) { if (mode==4 && i%2==1 && !finite) { /* consumers must not outnumber producers when waits are infinite */ if ((i/2) >= np) continue; }
    ths[i] = thread_create11(body, i); thread_enable_join(ths[i]); }
  for (int i=0;i<N;i++) if (ths[i]) thread_join((join_handle*)ths[i]);
  if (mode==0 && m.owner.load()) problem("mutex left locked");
  if ((mode==1) && rw.state!=0) problem("rwlock state != 0 at end: "+std::to_string(rw.state));
  if ((mode==2) && qrw.lock_state.load()!=0) problem("qrwlock state != 0 at end");
  if ((mode==3||mode==31) && (long)sem.count() + taken != signalled) problem("semaphore conservation: count "+std::to_string(sem.count())+" taken "+std::to_string(taken)+" signalled "+std::to_string(signalled));
  printf("seed=%lu mode=%d finite=%d intr=%d N=%d problems=%ld %s\n", (unsigned long)seed, mode, finite, intr, N, problems, first_problem.c_str());
  fd_events_fini(); vcpu_fini();
  return problems ? 2 : 0;
}
