// design-time probe: uncontrolled multi-vCPU stress with monitors + stall detection (C01,C02,C03,C06,C18,C19)
#define protected public
#define private public
#include <photon/thread/thread.h>
#undef protected
#undef private
#include <photon/photon.h>
#include <photon/thread/thread11.h>
#include <photon/common/alog.h>
#include <photon/common/range-lock.h>
#include <atomic>
#include <thread>
#include <vector>
#include <cstdio>
#include <chrono>
#include <random>
using namespace photon;
static std::atomic<long> progress{0}, problems{0}; static std::atomic<int> finished{0};
static void problem(const char* s){ if (problems++ == 0) { printf("PROBLEM: %s\n", s); fflush(stdout);} }
int main(int argc, char** argv) {
  set_log_output_level(ALOG_ERROR+1);
  int mode = argc>1? atoi(argv[1]):0; int nv = argc>2? atoi(argv[2]):3; long iters = argc>3? atol(argv[3]):200000; int nth = 3;
  photon::mutex m(argc>4? atoi(argv[4]) : 100); std::atomic<int> in_m{0};
  photon::rwlock rw; photon::qrwlock qrw; std::atomic<int> readers{0}, writers{0};
  photon::semaphore sem(0); std::atomic<long> signalled{0}, taken{0};
  photon::mutex cm; photon::condition_variable cv; long items = 0; std::atomic<long> produced{0}, consumed{0};
  photon::spinlock sl; photon::condition_variable cvs; long items2 = 0;
  RangeLock rl; std::atomic<int> occ[64]; for (auto& o: occ) o = 0;
  int total_threads = nv*nth;
  auto body = [&](int vid, int k, uint64_t seed){
    std::mt19937_64 rng(seed); auto R=[&](size_t n){ return n? rng()%n:0; };
    for (long i=0;i<iters;i++) {
      switch (mode) {
      case 0: { m.lock(); if (++in_m!=1) problem("mutex: two owners"); if (R(8)==0) thread_yield(); if (--in_m!=0) problem("mutex occupancy"); m.unlock(); break; }
      case 1: case 2: { int md = R(4)==0? WLOCK:RLOCK; if (mode==1) rw.lock(md); else qrw.lock(md);
          if (md==WLOCK){ if (++writers!=1 || readers!=0) problem("rw: writer not exclusive"); } else { readers++; if (writers!=0) problem("rw: reader with writer"); }
          if (R(8)==0) thread_yield(); if (md==WLOCK) writers--; else readers--; if (mode==1) rw.unlock(); else qrw.unlock(); break; }
      case 3: { int d = 1+R(3); sem.signal(d); signalled+=d; if (R(4)==0) thread_yield(); sem.wait(d); taken+=d; break; }   // everyone signals what it takes
      case 4: { bool producer = ((vid*nth+k)%2==0);
          if (producer) { cm.lock(); items++; cv.notify_one(); cm.unlock(); produced++; }
          else { cm.lock(); while (items==0) cv.wait(cm); items--; cm.unlock(); consumed++; } break; }
      case 5: { bool producer = ((vid*nth+k)%2==0);   // condvar with spinlock
          if (producer) { sl.lock(); items2++; cvs.notify_one(); sl.unlock(); produced++; }
          else { sl.lock(); while (items2==0) cvs.wait(sl); items2--; sl.unlock(); consumed++; } break; }
      case 6: { uint64_t off = R(60), len = 1+R(4); if (off+len>64) len=64-off; auto h = rl.lock(off, len);
          for (uint64_t x=off;x<off+len;x++) if (++occ[x]!=1) problem("rangelock: overlap"); if (R(8)==0) thread_yield();
          for (uint64_t x=off;x<off+len;x++) occ[x]--; rl.unlock(h); break; }
      }
      progress++;
    }
    finished++;
  };
  // in modes 4/5 producers and consumers must balance: total_threads even
  if ((mode==4||mode==5) && total_threads%2) { nth = 2; total_threads = nv*nth; }
  std::vector<std::thread> os;
  for (int v=0; v<nv; v++) os.emplace_back([&,v]{ photon::init(INIT_EVENT_DEFAULT, INIT_IO_NONE); std::vector<thread*> ths;
      for (int k=0;k<nth;k++){ auto th=thread_create11(body, v, k, (uint64_t)(v*100+k+1)); thread_enable_join(th); ths.push_back(th);} for (auto th: ths) thread_join((join_handle*)th); photon::fini(); });
  long last=-1; int stalled=0;
  while (finished < total_threads) { std::this_thread::sleep_for(std::chrono::milliseconds(300)); long p=progress; if (p==last) stalled++; else stalled=0; last=p;
    if (stalled>=10) { printf("STALLED mode=%d: progress=%ld finished=%d/%d sem.count=%lu items=%ld items2=%ld in_m=%d rw.state=%ld qrw=%ld\n", mode, p, (int)finished, total_threads, (unsigned long)sem.count(), items, items2, (int)in_m, (long)rw.state, (long)qrw.lock_state.load()); fflush(stdout); _Exit(2); } }
  for (auto& t: os) t.join();
  if (mode==3 && (long)sem.count()+taken!=signalled) problem("semaphore conservation");
  printf("mode=%d vcpus=%d ops=%ld problems=%ld\n", mode, nv, (long)progress, (long)problems); return problems?2:0;
}
