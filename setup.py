#!/usr/bin/env python3
"""MANIFEST.setup_cmd: build the Lean library + driver from files on disk (offline)."""
import os
import sys

sys.path.insert(0, os.path.dirname(os.path.abspath(__file__)))
from lib import common as C

ok, log = C.lean_build()
print(log[-3000:])
if not ok:
    print("setup: lake build FAILED")
    sys.exit(1)
print("setup: ok (driver at %s)" % C.DRIVER)
