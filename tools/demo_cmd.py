#!/usr/bin/env python3
"""prints '<compile command>\n<binary>' extracted from the comment on top of a seeded demo.cpp"""
import re, sys
lines = open(sys.argv[1]).read().split("\n")
cmd, on = "", False
for l in lines[:60]:
    t = re.sub(r"^\s*(//|\*|#)\s?", "", l).strip()
    t = re.sub(r"^(build|compile)\s*:\s*", "", t, flags=re.I)
    if not on and re.match(r"(g\+\+|clang\+\+)\s", t):
        on = True
    if on:
        cont = t.endswith("\\")
        cmd += " " + t.rstrip("\\").strip()
        if not cont:
            break
cmd = cmd.split("&&")[0].strip()
import os
d = os.path.dirname(os.path.abspath(sys.argv[1]))
m = re.search(r"-o\s+(\S+)", cmd)
out = m.group(1) if m else ""
# relative names in the comment are relative to the demo's directory
if out and not out.startswith("/") and not os.path.exists(os.path.join(os.getcwd(), os.path.dirname(out) or ".")) or (out and "/" not in out):
    cmd = "cd %s && %s" % (d, cmd)
    out = os.path.join(d, out)
print(cmd)
print(out)
