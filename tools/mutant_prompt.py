#!/usr/bin/env python3
"""prints the sub-agent prompt for a property id and worktree (nothing from /verif except the property text)"""
import json, sys
pid, wt, tests, n = sys.argv[1], sys.argv[2], sys.argv[3], int(sys.argv[4]) if len(sys.argv) > 4 else 2
p = [json.loads(l) for l in open('/verif/properties.jsonl') if json.loads(l)['id'] == pid][0]
print(f"""You are testing how well a verification setup detects realistic regressions in the C++ library alibaba/PhotonLibOS.
You have your own scratch git worktree of the repository at {wt} (work ONLY there; never touch /repo or /verif; do not read /verif).

The property under test (id {pid}): "{p['title']}"
Statement: {p['statement']}
It is meant to hold: {p['quantifier']['text']}
Code it is anchored in: {', '.join(p['anchors']['files'])}

Your task: produce {n} DIFFERENT source changes ("mutants") to the library code in the worktree, each of which
  (a) still compiles,
  (b) still passes the repository's existing tests that cover this code ({tests}), and
  (c) breaks the property above — i.e. there is a concrete input / operation sequence / schedule on which the changed code violates the statement while the unchanged code satisfies it.
Prefer subtle changes that need something specific to manifest (a particular boundary input, a multi-step sequence of operations, an unusual shape, a specific interleaving, or two cooperating sites that each look fine alone) — NOT changes that ordinary use would expose at once, and not changes that merely crash everything. Think of realistic slips: off-by-one in a comparison, a wrong branch in a rarely-taken case, a missing update on an error path, a swapped operand, an optimisation that is wrong at a boundary.

How to build and run tests: the worktree has no build directory. Configure one inside the worktree, e.g.
  cmake -G Ninja -S {wt} -B {wt}/_b -DCMAKE_BUILD_TYPE=RelWithDebInfo -DPHOTON_BUILD_TESTING=ON -DCMAKE_CXX_FLAGS=-Wno-error
and build only what you need (ninja -C {wt}/_b <target>; test binaries land in {wt}/_b/output/). The machine is shared: use at most -j6. The sandbox has no network. Header-only code can be tested with a small standalone program compiled with g++ -std=c++17 -I{wt}/include (note: {wt}/include/photon/... are symlinks into the source tree); code in .cpp files can be linked against {wt}/_b/output/libphoton.so (target photon_shared).

For each mutant i (1..{n}) write, under {wt}/mutants/m<i>/ :
  - patch.diff : `git diff` of the library change only (relative to HEAD, applies with `git apply` at the repository root); do not include test or demo files in it;
  - demo.cpp (or demo.sh) : a small demonstration that FAILS (non-zero exit or prints FAIL) with the change and PASSES without it, with a comment on top saying how to build/run it;
  - notes.txt : which clause of the property it breaks, what exactly is needed for it to manifest, which existing tests you ran and that they passed with the change.
After finishing each mutant, revert the worktree's source (git checkout -- . ; keep the untracked mutants/ directory) so that the next one starts from clean HEAD.
Verify (a), (b), (c) yourself by actually building and running. Finish by listing the mutants you produced with one line each. Do not commit anything.""")
