#!/bin/bash
# usage: try_mutant.sh <Cxx> <patch.diff> [tier]   -- applies the patch to /repo, runs the check, reverts
set -u
P=$1; D=$2; T=${3:-quick}
cd /repo || exit 2
if ! git diff --quiet; then echo "repo dirty"; exit 2; fi
git apply "$D" || { echo "patch does not apply"; exit 2; }
cd /verif && python3 check.py $P $T > /tmp/try_mutant.out 2>&1; rc=$?
grep -E "VIOLATION|KNOWN|seed=" /tmp/try_mutant.out | cut -c1-300
git -C /repo checkout -- .
echo "exit=$rc"
