#!/bin/bash
# usage: verify_seed.sh <wt> <mutant dir> "<build+test cmd>"
# confirms in the scratch worktree: (clean) build+demo passes; (patched) compiles, existing tests pass, demo fails
WT=$1; M=$2; TEST=$3
cd $WT || exit 2
git checkout -q -- .
cmd=$(grep -E "^//\s+g\+\+" -A6 $M/demo.cpp | sed 's#^//##' | tr -d '\\\n' | sed 's/&&.*//')
out=$(echo "$cmd" | grep -o "\-o [^ ]*" | head -1 | cut -d' ' -f2)
bash -c "$TEST" > /tmp/verify_seed_test_clean.log 2>&1
bash -c "$cmd" >/dev/null 2>&1 && $out >/dev/null 2>&1; clean=$?
git apply $M/patch.diff || { echo "apply failed"; exit 2; }
bash -c "$TEST" > /tmp/verify_seed_test.log 2>&1; t=$?
bash -c "$cmd" >/dev/null 2>&1; comp=$?
$out >/dev/null 2>&1; mut=$?
git checkout -q -- .
echo "$M: demo clean=$clean (want 0) compile_patched=$comp (want 0) demo patched=$mut (want !=0) tests_patched=$t (want 0)"
