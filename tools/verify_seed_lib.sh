#!/bin/bash
# usage: verify_seed_lib.sh <Cxx> "<test targets>" "<test cmd>"
# confirms seeds under /tmp/wt-<Cxx>/mutants/m*: clean demo passes; with patch: builds, tests pass, demo fails
ID=$1; TARGETS=$2; TEST=$3; WT=${WT_OVERRIDE:-/tmp/wt-$ID}
for M in $WT/mutants/m*; do
  cd $WT && git checkout -q -- .
  ninja -C $WT/_b -j8 photon_shared $TARGETS > /dev/null 2>&1
  cmd=$(python3 /verif/tools/demo_cmd.py $M/demo.cpp | head -1)
  out=$(python3 /verif/tools/demo_cmd.py $M/demo.cpp | tail -1)
  bash -c "$cmd" > /tmp/vs_compile.log 2>&1; timeout 120 $out > /dev/null 2>&1; clean=$?
  git apply $M/patch.diff
  ninja -C $WT/_b -j8 photon_shared $TARGETS > /dev/null 2>&1; comp=$?
  bash -c "$TEST" > /tmp/vs_tests.log 2>&1; t=$?
  bash -c "$cmd" > /tmp/vs_compile.log 2>&1; timeout 120 $out > /dev/null 2>&1; mut=$?
  git checkout -q -- .
  echo "$ID $(basename $M): demo clean=$clean (want 0) build_patched=$comp (want 0) tests_patched=$t (want 0) demo patched=$mut (want !=0)"
done
ninja -C $WT/_b -j8 photon_shared > /dev/null 2>&1
